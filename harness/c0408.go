package main

// C04 (faults: both ends terminate, no false success) and C08 (schedule independence, stream
// calls never concurrent): fault / schedule scenarios on the REAL fsutil.Send and
// fsutil.Receive over an instrumented in-memory stream pair.

import (
	"bytes"
	"context"
	"crypto/sha256"
	"encoding/hex"
	"fmt"
	"hash"
	"io"
	"net"
	gofs "io/fs"
	"os"
	"os/exec"
	"path/filepath"
	"runtime"
	"sort"
	"strings"
	"sync"
	"sync/atomic"
	"syscall"
	"time"

	"github.com/pkg/errors"
	"github.com/tonistiigi/fsutil"
	"github.com/tonistiigi/fsutil/types"
	"github.com/tonistiigi/fsutil/util"
)

func init() {
	kinds[0x0401] = run0401
	kinds[0x0801] = run0801
	kinds[0x0802] = run0802
	props["C04"] = genC04
	props["C08"] = genC08
}

// ---------------------------------------------------------------- instrumented stream

type c04Pkt struct {
	From int // 0 = sender's endpoint, 1 = receiver's endpoint
	Type types.Packet_PacketType
	ID   uint32
	Len  int
}

var c04ErrDown = errors.New("c04: stream torn down")
var c04ErrBroken = errors.New("c04: stream endpoint failed")

type c04Pair struct {
	mu         sync.Mutex
	log        []c04Pkt
	nreq       int
	reqWant    int // fan-out gate: REQ delivery is held back until this many REQs were sent
	reqReached chan struct{}
	reqOnce    sync.Once
	down       chan struct{}
	downOnce   sync.Once
	activity   int64
	E          [2]*c04End
	onPacket   func(n int) // called after the n-th packet has been accepted by the stream
	ctx        context.Context // the stream's own context (independent of Send's and Receive's)
	cancelCtx  func()
}

type c04End struct {
	pair       *c04Pair
	idx        int
	send, recv chan []byte
	closeOnce  sync.Once
	broken     chan struct{}
	brokenOnce sync.Once
	ops        int64
	breakAt    int64 // the endpoint fails from its breakAt-th operation on (-1: never)
	fired      *int32
	inSend     int32
	inRecv     int32
	ovSend     int32 // times two SendMsg were in flight on this endpoint
	ovRecv     int32 // times two RecvMsg were in flight on this endpoint
	gated      bool  // fan-out gate (sender's endpoint)
	scribble   bool  // overwrite the previous DATA payload buffer when the next RecvMsg starts
	prevData   []byte
	scribbled  int32
	perturb    func() // schedule perturbation around every operation
	// transport 1: the endpoint is util.NewProtoStream over one end of a net.Pipe
	conn  net.Conn
	inner fsutil.Stream
	// "peer vanishes": after this endpoint's owner has consumed vanishAt packets its process is
	// gone: its own operations fail, its context is cancelled, and the PEER sees a clean end of
	// stream (io.EOF after what was already sent); the peer's later writes are dropped or fail
	peer      *c04End
	recvd     int64
	vanishAt  int64 // -1: never
	kill      func() // cancels the owner's context
	gone      int32  // set on the surviving endpoint: the peer has vanished
	dropAfter bool   // writes to a vanished peer are silently dropped (else they fail)
	finSeen   int32  // a FIN packet was handed to this endpoint's owner
	walkDone  chan struct{} // sender's endpoint: closed when the end-of-listing STAT has been sent
	walkOnce  sync.Once
}

func c04NewPair(capSR, capRS int) *c04Pair {
	sr := make(chan []byte, capSR)
	rs := make(chan []byte, capRS)
	p := &c04Pair{down: make(chan struct{}), reqReached: make(chan struct{})}
	p.ctx, p.cancelCtx = context.WithCancel(context.Background())
	p.E[0] = &c04End{pair: p, idx: 0, send: sr, recv: rs, broken: make(chan struct{}), breakAt: -1, vanishAt: -1, walkDone: make(chan struct{})}
	p.E[1] = &c04End{pair: p, idx: 1, send: rs, recv: sr, broken: make(chan struct{}), breakAt: -1, vanishAt: -1, walkDone: make(chan struct{})}
	p.E[0].peer, p.E[1].peer = p.E[1], p.E[0]
	return p
}

func (p *c04Pair) TearDown() {
	p.downOnce.Do(func() {
		close(p.down)
		for _, e := range p.E {
			if e.conn != nil {
				e.conn.Close()
			}
		}
	})
}

// usePipe switches the pair to transport 1: util.NewProtoStream (the framing of the cmd/ tools)
// over a synchronous net.Pipe; closing one end is a clean end of stream for the other.
func (p *c04Pair) usePipe() {
	a, b := net.Pipe()
	p.E[0].conn, p.E[1].conn = a, b
	p.E[0].inner = util.NewProtoStream(p.ctx, a, a)
	p.E[1].inner = util.NewProtoStream(p.ctx, b, b)
}

func (p *c04Pair) Log() []c04Pkt {
	p.mu.Lock()
	defer p.mu.Unlock()
	return append([]c04Pkt{}, p.log...)
}

var _ fsutil.Stream = &c04End{}

func (e *c04End) Context() context.Context { return e.pair.ctx }

func (e *c04End) CloseSend() { e.closeOne() }
func (e *c04End) closeOne() {
	e.closeOnce.Do(func() {
		if e.conn != nil {
			e.conn.Close()
			return
		}
		close(e.send)
	})
}

// vanish: the owner of this endpoint is gone (killed process / dropped connection).
func (e *c04End) vanish() {
	if e.fired != nil {
		atomic.StoreInt32(e.fired, 1)
	}
	atomic.StoreInt32(&e.peer.gone, 1)
	e.brokenOnce.Do(func() { close(e.broken) })
	if e.kill != nil {
		e.kill()
	}
	e.closeOne() // the peer reads what was already sent, then io.EOF
}

func (e *c04End) consumed(p *types.Packet) {
	if p.Type == types.PACKET_FIN {
		atomic.StoreInt32(&e.finSeen, 1)
	}
	n := atomic.AddInt64(&e.recvd, 1)
	if e.vanishAt >= 0 && n == e.vanishAt {
		e.vanish()
	}
}

func (e *c04End) logSent(p *types.Packet) {
	if e.idx == 0 && p.Type == types.PACKET_STAT && p.Stat == nil {
		e.walkOnce.Do(func() { close(e.walkDone) })
	}
	pr := e.pair
	pr.mu.Lock()
	pr.log = append(pr.log, c04Pkt{From: e.idx, Type: p.Type, ID: p.ID, Len: len(p.Data)})
	n := len(pr.log)
	if p.Type == types.PACKET_REQ {
		pr.nreq++
		if pr.reqWant > 0 && pr.nreq >= pr.reqWant {
			pr.reqOnce.Do(func() { close(pr.reqReached) })
		}
	}
	cb := pr.onPacket
	pr.mu.Unlock()
	if cb != nil {
		cb(n)
	}
}

func (e *c04End) brk() {
	e.brokenOnce.Do(func() {
		if e.fired != nil {
			atomic.StoreInt32(e.fired, 1)
		}
		close(e.broken)
		if e.conn != nil {
			e.conn.Close()
		}
	})
}

func (e *c04End) failed() error {
	select {
	case <-e.pair.down:
		return c04ErrDown
	case <-e.broken:
		return c04ErrBroken
	default:
		return nil
	}
}

func (e *c04End) begin() {
	atomic.AddInt64(&e.pair.activity, 1)
	n := atomic.AddInt64(&e.ops, 1) - 1
	if e.breakAt >= 0 && n >= e.breakAt {
		e.brk()
	}
}

func (e *c04End) SendMsg(m interface{}) (err error) {
	p, ok := m.(*types.Packet)
	if !ok {
		return errors.Errorf("invalid msg: %#v", m)
	}
	if atomic.AddInt32(&e.inSend, 1) > 1 {
		atomic.AddInt32(&e.ovSend, 1)
	}
	defer atomic.AddInt32(&e.inSend, -1)
	e.begin()
	defer atomic.AddInt64(&e.pair.activity, 1)
	if err := e.failed(); err != nil {
		return err
	}
	if e.perturb != nil {
		e.perturb()
	}
	if e.gated && p.Type == types.PACKET_DATA {
		// large fan-out: every DATA send blocks until the stream is torn down
		select {
		case <-e.pair.down:
			return c04ErrDown
		case <-e.broken:
			return c04ErrBroken
		}
	}
	if atomic.LoadInt32(&e.gone) != 0 && e.conn == nil {
		// the peer has vanished: what is written now goes nowhere
		if e.dropAfter {
			return nil
		}
		return io.ErrClosedPipe
	}
	if e.inner != nil {
		if err := e.inner.SendMsg(p); err != nil {
			if ferr := e.failed(); ferr != nil {
				return ferr
			}
			return err
		}
		e.logSent(p)
		return nil
	}
	dt, err := p.MarshalVT()
	if err != nil {
		return err
	}
	defer func() {
		if r := recover(); r != nil { // send on a closed channel
			err = io.ErrClosedPipe
		}
	}()
	select {
	case <-e.pair.down:
		return c04ErrDown
	case <-e.broken:
		return c04ErrBroken
	case e.send <- dt:
	}
	e.logSent(p)
	if e.perturb != nil {
		e.perturb()
	}
	return nil
}

func (e *c04End) RecvMsg(m interface{}) error {
	p, ok := m.(*types.Packet)
	if !ok {
		return errors.Errorf("invalid msg: %#v", m)
	}
	if atomic.AddInt32(&e.inRecv, 1) > 1 {
		atomic.AddInt32(&e.ovRecv, 1)
	}
	defer atomic.AddInt32(&e.inRecv, -1)
	e.begin()
	defer atomic.AddInt64(&e.pair.activity, 1)
	if e.scribble && e.prevData != nil {
		// the buffer handed out by the previous RecvMsg belongs to the stream again
		for i := range e.prevData {
			e.prevData[i] = 0xEE
		}
		e.prevData = nil
		atomic.AddInt32(&e.scribbled, 1)
	}
	if err := e.failed(); err != nil {
		return err
	}
	if e.perturb != nil {
		e.perturb()
	}
	if e.gated && e.pair.reqWant > 0 {
		select {
		case <-e.pair.down:
			return c04ErrDown
		case <-e.broken:
			return c04ErrBroken
		case <-e.pair.reqReached:
		}
	}
	if e.inner != nil {
		if err := e.inner.RecvMsg(p); err != nil {
			if ferr := e.failed(); ferr != nil {
				return ferr
			}
			return err
		}
		e.consumed(p)
		return nil
	}
	select {
	case <-e.pair.down:
		return c04ErrDown
	case <-e.broken:
		return c04ErrBroken
	case dt, ok := <-e.recv:
		if !ok {
			return io.EOF
		}
		err := p.UnmarshalVT(dt)
		if err == nil && e.scribble && p.Type == types.PACKET_DATA && len(p.Data) > 0 {
			e.prevData = p.Data
		}
		if err == nil {
			e.consumed(p)
		}
		return err
	}
}

// ---------------------------------------------------------------- source with fault hooks

// c04HookFS wraps any fsutil.FS (the in-memory MemFS or an on-disk tree through fsutil.NewFS)
// with the fault hooks: called before each reported walk entry / before Open / before each Read.
type c04HookFS struct {
	inner    fsutil.FS
	WalkHook func(idx int, p string) error
	OpenHook func(p string) error
	ReadHook func(p string, off int) error
	ChunkLen int // max bytes per Read (0 = whatever the caller asks for)
	walkIdx  int
}

func (h *c04HookFS) Walk(ctx context.Context, target string, fn gofs.WalkDirFunc) error {
	return h.inner.Walk(ctx, target, func(p string, d gofs.DirEntry, err error) error {
		if err == nil && h.WalkHook != nil {
			idx := h.walkIdx
			h.walkIdx++
			if e := h.WalkHook(idx, p); e != nil {
				return e
			}
		}
		return fn(p, d, err)
	})
}

func (h *c04HookFS) Open(p string) (io.ReadCloser, error) {
	if h.OpenHook != nil {
		if err := h.OpenHook(p); err != nil {
			return nil, err
		}
	}
	rc, err := h.inner.Open(p)
	if err != nil {
		return nil, err
	}
	return &c04HookReader{h: h, path: p, rc: rc}, nil
}

type c04HookReader struct {
	h    *c04HookFS
	path string
	rc   io.ReadCloser
	off  int
}

func (r *c04HookReader) Read(b []byte) (int, error) {
	if r.h.ReadHook != nil {
		if err := r.h.ReadHook(r.path, r.off); err != nil {
			return 0, err
		}
	}
	if r.h.ChunkLen > 0 && len(b) > r.h.ChunkLen {
		b = b[:r.h.ChunkLen]
	}
	n, err := r.rc.Read(b)
	r.off += n
	return n, err
}

func (r *c04HookReader) Close() error { return r.rc.Close() }

// ---------------------------------------------------------------- goroutine census

var c04StackMu sync.Mutex
var c04StackBuf = make([]byte, 4<<20)

var c04BlockedStates = []string{"chan receive", "chan send", "select", "semacquire", "sync.Mutex.Lock",
	"sync.RWMutex.RLock", "sync.RWMutex.Lock", "sync.Cond.Wait", "sync.WaitGroup.Wait"}

// c04Census counts the goroutines that have an fsutil frame on their stack, and how many of
// them are parked on a channel / mutex / wait group (nothing but another goroutine can wake them).
func c04Census() (total, blocked int) {
	c04StackMu.Lock()
	defer c04StackMu.Unlock()
	for {
		n := runtime.Stack(c04StackBuf, true)
		if n < len(c04StackBuf) {
			return c04CountStacks(string(c04StackBuf[:n]))
		}
		c04StackBuf = make([]byte, 2*len(c04StackBuf))
	}
}

func c04CountStacks(dump string) (total, blocked int) {
	for _, blk := range strings.Split(dump, "\n\n") {
		// goroutines inside fsutil, and the two goroutines that call Send / Receive (also while
		// they are between the return of the call and the hand-over of its result)
		// (fsutil starts goroutines through errgroup only: one that has not run yet shows nothing
		// but the errgroup frame)
		if !strings.Contains(blk, "github.com/tonistiigi/fsutil") && !strings.Contains(blk, "main.c04Call") &&
			!strings.Contains(blk, "golang.org/x/sync/errgroup") {
			continue
		}
		total++
		a := strings.IndexByte(blk, '[')
		b := strings.IndexByte(blk, ']')
		if a < 0 || b < a {
			continue
		}
		st := blk[a+1 : b]
		if i := strings.IndexByte(st, ','); i >= 0 {
			st = st[:i]
		}
		for _, w := range c04BlockedStates {
			if st == w {
				blocked++
				break
			}
		}
	}
	return
}

// ---------------------------------------------------------------- one transfer

const (
	c04FNone = iota
	c04FBreak
	c04FCancel
	c04FWalk
	c04FRead
	c04FOpen
	c04FHash
	c04FNotify
	c04FVanish
)

type c04Notif struct {
	Kind     int
	Path     string
	DigestOK bool
}

type c04Cfg struct {
	View      []*MNode
	Dest      string
	FaultKind int
	FA, FB    int
	Fanout    int // > 0: gated stream, REQ delivery held back until Fanout requests were sent
	Cap       int
	Chunk     int
	Scribble  bool
	Perturb   func() // nil = none
	// Hold: the fault is held back until quiescence: a fault hook blocks where it would fail, a
	// cancellation / endpoint failure is postponed; at the first quiescence it is released.
	Hold bool
	// Progress: Send and Receive get progress callbacks with an overlap / ordering detector
	Progress bool
	// SumGate: which files' digest computation (hash.Sum) is gated until their notification
	SumGate func(path string) bool
	// Transport 1: util.NewProtoStream over net.Pipe instead of the in-memory channel stream
	Transport int
	// OpenGate: source Opens are held until the sender's listing is complete (walker runs ahead)
	OpenGate bool
	// SrcDir != "": the source is that directory through fsutil.NewFS instead of the in-memory FS
	SrcDir string
	// Stall >= 0 (with Hold): the receiver-side callbacks of that entry block until the same moment
	// and then return normally (a diff that is slower than the network).
	Stall int
}

type c04Res struct {
	Send, Recv       int // 0 nil, 1 error, 2 did not return
	SendErr, RecvErr error
	Hung             bool
	TimedOut         bool
	Quiesced         bool
	HeldReleased     bool
	FinS, FinR       bool // a FIN packet was delivered to Send's / Receive's RecvMsg
	ProgOverlap      int32 // times a progress callback was entered while another call of it was running
	ProgOOO          int32 // times a progress callback reported a smaller total than an earlier call
	SumReleased      int
	Fired            bool
	Leaks            int
	Log              []c04Pkt
	Notifs           []c04Notif
	Ov               [4]int32
	Scribbled        int32
}

func c04EntryPath(view []*MNode, i int) (string, *MNode) {
	idx := 0
	var found *MNode
	var fp string
	var rec func(dir string, ns []*MNode)
	rec = func(dir string, ns []*MNode) {
		for _, n := range ns {
			p := n.Name
			if dir != "" {
				p = dir + "/" + n.Name
			}
			if idx == i {
				found, fp = n, p
			}
			idx++
			if n.IsDir() {
				rec(p, n.Kids)
			}
		}
	}
	rec("", view)
	return fp, found
}

func c04Expected(view []*MNode) map[string]*MNode {
	out := map[string]*MNode{}
	var rec func(dir string, ns []*MNode)
	rec = func(dir string, ns []*MNode) {
		for _, n := range ns {
			p := n.Name
			if dir != "" {
				p = dir + "/" + n.Name
			}
			out[p] = n
			if n.IsDir() {
				rec(p, n.Kids)
			}
		}
	}
	rec("", view)
	return out
}

var c04InjErr = errors.New("c04: injected fault")

func c04Run(cfg c04Cfg) (res c04Res) {
	base, _ := c04Census()
	capRS := cfg.Cap
	if cfg.Fanout > 0 && capRS < cfg.Fanout+8 {
		capRS = cfg.Fanout + 8
	}
	pair := c04NewPair(cfg.Cap, capRS)
	var fired int32
	ctxS, cancelS := context.WithCancel(context.Background())
	ctxR, cancelR := context.WithCancel(context.Background())
	defer cancelS()
	defer cancelR()
	if cfg.Transport == 1 {
		pair.usePipe()
	}
	pair.E[0].kill, pair.E[1].kill = cancelS, cancelR
	for _, e := range pair.E {
		e.scribble = cfg.Scribble
		e.perturb = cfg.Perturb
		e.fired = &fired
	}
	if cfg.Fanout > 0 {
		pair.reqWant = cfg.Fanout
		pair.E[0].gated = true
	}
	var srcfs fsutil.FS = &MemFS{Roots: cfg.View}
	if cfg.SrcDir != "" {
		// the real on-disk walker (fs.go) over a materialised copy of the view
		var err error
		if srcfs, err = fsutil.NewFS(cfg.SrcDir); err != nil {
			panic(err)
		}
	}
	mem := &c04HookFS{inner: srcfs, ChunkLen: cfg.Chunk}
	chunk := cfg.Chunk
	if chunk <= 0 {
		chunk = 32 * 1024
	}
	fpath, fnode := c04EntryPath(cfg.View, cfg.FA)
	expected := c04Expected(cfg.View)
	hashErrPath, notifyErrPath := "", ""
	holdGate := make(chan struct{})
	waitHold := func() {
		if cfg.Hold {
			select {
			case <-holdGate:
			case <-pair.down:
			}
		}
	}
	stallPath := ""
	if cfg.Hold && cfg.Stall >= 0 {
		stallPath, _ = c04EntryPath(cfg.View, cfg.Stall)
	}
	var fireHeld func() // postponed cancellation / endpoint failure
	switch cfg.FaultKind {
	case c04FBreak:
		if cfg.Hold {
			e := pair.E[cfg.FA&1]
			fireHeld = e.brk
		} else {
			pair.E[cfg.FA&1].breakAt = int64(cfg.FB)
		}
	case c04FCancel:
		// which context: 0 Send's, 1 Receive's, 2 the stream's own, 3 all three (one shared context)
		cancelStream := func() { pair.cancelCtx(); pair.TearDown() }
		cancel := cancelS
		switch cfg.FA & 3 {
		case 1:
			cancel = cancelR
		case 2:
			cancel = cancelStream
		case 3:
			cancel = func() { cancelS(); cancelR(); cancelStream() }
		}
		if cfg.Hold {
			fireHeld = func() {
				atomic.StoreInt32(&fired, 1)
				cancel()
			}
		} else if cfg.FB == 0 {
			atomic.StoreInt32(&fired, 1)
			cancel()
		} else {
			k := cfg.FB
			pair.onPacket = func(n int) {
				if n == k {
					atomic.StoreInt32(&fired, 1)
					cancel()
				}
			}
		}
	case c04FVanish:
		// a&1: 0 the receiver vanishes, 1 the sender vanishes; a&2: the survivor's later writes are
		// dropped silently (else they fail); b: after the vanishing side has consumed b packets
		v := pair.E[1-cfg.FA&1]
		v.peer.dropAfter = cfg.FA&2 != 0
		if cfg.FB == 0 {
			v.vanish()
		} else {
			v.vanishAt = int64(cfg.FB)
		}
	case c04FWalk:
		a := cfg.FA
		mem.WalkHook = func(idx int, p string) error {
			if idx == a {
				waitHold()
				atomic.StoreInt32(&fired, 1)
				return c04InjErr
			}
			return nil
		}
	case c04FRead:
		if fnode != nil {
			thr := cfg.FB * chunk
			if thr > len(fnode.Content) {
				thr = len(fnode.Content)
			}
			mem.ReadHook = func(p string, off int) error {
				if cfg.Perturb != nil {
					cfg.Perturb()
				}
				if p == fpath && off >= thr {
					waitHold()
					atomic.StoreInt32(&fired, 1)
					return c04InjErr
				}
				return nil
			}
		}
	case c04FOpen:
		if fnode != nil {
			mem.OpenHook = func(p string) error {
				if p == fpath {
					waitHold()
					atomic.StoreInt32(&fired, 1)
					return c04InjErr
				}
				return nil
			}
		}
	case c04FHash:
		if fnode != nil {
			hashErrPath = fpath
		}
	case c04FNotify:
		if fnode != nil {
			notifyErrPath = fpath
		}
	}
	if cfg.OpenGate {
		prev := mem.OpenHook
		mem.OpenHook = func(p string) error {
			select {
			case <-pair.E[0].walkDone:
			case <-pair.down:
			}
			if prev != nil {
				return prev(p)
			}
			return nil
		}
	}
	if mem.ReadHook == nil && cfg.Perturb != nil {
		mem.ReadHook = func(p string, off int) error { cfg.Perturb(); return nil }
	}
	var nmu sync.Mutex
	var gmu sync.Mutex // guards the Sum gates
	notified := map[string]chan struct{}{}
	sumRelease := make(chan struct{})
	sumWaiters := 0
	opt := fsutil.ReceiveOpt{
		ContentHasher: func(st *types.Stat) (hash.Hash, error) {
			if cfg.Perturb != nil {
				cfg.Perturb()
			}
			if hashErrPath != "" && st.Path == hashErrPath {
				waitHold()
				atomic.StoreInt32(&fired, 1)
				return nil, c04InjErr
			}
			if stallPath != "" && st.Path == stallPath {
				waitHold()
			}
			h := &c08Hash{}
			h.Write(hdrFor(st))
			if cfg.SumGate != nil && os.FileMode(st.Mode)&os.ModeType == 0 && cfg.SumGate(st.Path) {
				// gate this file's digest computation (hash.Sum, called when its writer is closed):
				// it blocks until the change notification for the file has been delivered — which
				// a correct receiver does only afterwards — or, failing that, until everything is parked
				gmu.Lock()
				ch := make(chan struct{})
				notified[st.Path] = ch
				gmu.Unlock()
				h.gate = func() {
					gmu.Lock()
					sumWaiters++
					rel := sumRelease
					gmu.Unlock()
					select {
					case <-ch:
					case <-rel:
					case <-pair.down:
					}
					gmu.Lock()
					sumWaiters--
					gmu.Unlock()
				}
			}
			return h, nil
		},
		NotifyHashed: func(kind fsutil.ChangeKind, p string, fi os.FileInfo, err error) error {
			if cfg.Perturb != nil {
				cfg.Perturb()
			}
			if notifyErrPath != "" && p == notifyErrPath {
				waitHold()
				atomic.StoreInt32(&fired, 1)
				return c04InjErr
			}
			if stallPath != "" && p == stallPath {
				waitHold()
			}
			gmu.Lock()
			if ch, ok := notified[p]; ok {
				delete(notified, p)
				close(ch)
			}
			gmu.Unlock()
			n := c04Notif{Kind: int(kind), Path: p, DigestOK: fi == nil} // a deletion carries no digest
			if fi != nil {
				if st, ok := fi.Sys().(*types.Stat); ok {
					want := hdrFor(st)
					if en := expected[p]; en != nil && os.FileMode(en.Stat.Mode)&os.ModeType == 0 {
						want = append(want, en.Content...)
					}
					n.DigestOK = bytes.Equal(digestBytes(fi), want)
				}
			}
			nmu.Lock()
			res.Notifs = append(res.Notifs, n)
			nmu.Unlock()
			return nil
		},
	}
	var sendProgress func(int, bool)
	if cfg.Progress {
		mk := func() func(int, bool) {
			var in int32
			var last int64
			return func(total int, _ bool) {
				if atomic.AddInt32(&in, 1) > 1 {
					atomic.AddInt32(&res.ProgOverlap, 1)
				}
				if prev := atomic.SwapInt64(&last, int64(total)); int64(total) < prev {
					atomic.AddInt32(&res.ProgOOO, 1)
				}
				if cfg.Perturb != nil {
					cfg.Perturb()
				}
				atomic.AddInt32(&in, -1)
			}
		}
		sendProgress = mk()
		opt.ProgressCb = mk()
	}
	sdone := make(chan error, 1)
	rdone := make(chan error, 1)
	go c04Call(sdone, func() error { return fsutil.Send(ctxS, pair.E[0], mem, sendProgress) })
	go c04Call(rdone, func() error { return fsutil.Receive(ctxR, pair.E[1], cfg.Dest, opt) })

	res.Send, res.Recv = 2, 2
	pending := 2
	start := time.Now()
	var tornAt time.Time
	torn := false
	lastAct := int64(-1)
	quietRuns := 0
	tear := func() {
		if !torn {
			quietRuns, lastAct = 0, -1
			torn = true
			tornAt = time.Now()
			pair.TearDown()
		}
	}
	tick := time.NewTicker(2 * time.Millisecond)
	defer tick.Stop()
	released := false
	// The census dumps every goroutine stack with the world stopped: with hundreds of goroutines
	// (and GOMAXPROCS 1 in some C08 schedules) one census costs more than a tick and the monitor
	// would starve the transfer it watches.  Keep its duty cycle below ~10 %: after a census that
	// took d, the next one is not taken before 9 d have passed.
	var nextCensus time.Time
	census := func() (int, int) {
		t0 := time.Now()
		total, blocked := c04Census()
		if d := time.Since(t0); d > 200*time.Microsecond {
			nextCensus = time.Now().Add(9 * d)
		}
		return total, blocked
	}
loop:
	for pending > 0 {
		select {
		case err := <-sdone:
			res.SendErr = err
			res.Send = c04Class(err)
			pending--
			pair.E[0].CloseSend()
			if err != nil {
				tear()
			}
		case err := <-rdone:
			res.RecvErr = err
			res.Recv = c04Class(err)
			pending--
			if err != nil {
				tear()
			}
		case <-tick.C:
			if torn {
				// hang detector: 10 s after tear-down — or earlier, as soon as it is certain that
				// nothing can move any more: every goroutine of the two calls has been parked on a
				// channel / mutex / wait group, with no stream activity, for 40 consecutive samples
				// (after tear-down no event is left that could wake one of them)
				if time.Since(tornAt) > 10*time.Second {
					res.Hung = true
					break loop
				}
				if len(sdone)+len(rdone) > 0 || time.Now().Before(nextCensus) {
					continue
				}
				act := atomic.LoadInt64(&pair.activity)
				total, blocked := census()
				if total-base >= pending && total == blocked && act == lastAct {
					quietRuns++
				} else {
					quietRuns = 0
				}
				lastAct = act
				if quietRuns >= 40 {
					res.Hung = true
					break loop
				}
				continue
			}
			if os.Getenv("VERIF_C0408_DEBUG") != "" && int(time.Since(start)/(2*time.Millisecond))%2500 == 0 {
				fmt.Fprintf(os.Stderr, "  t=%v activity=%d goroutines=%d procs=%d\n", time.Since(start).Round(time.Second), atomic.LoadInt64(&pair.activity), runtime.NumGoroutine(), runtime.GOMAXPROCS(0))
			}
			if time.Since(start) > 40*time.Second {
				res.TimedOut = true
				if os.Getenv("VERIF_C0408_DEBUG") != "" {
					buf := make([]byte, 64<<20)
					os.WriteFile(filepath.Join(os.TempDir(), "c0408-timeout-stacks.txt"), buf[:runtime.Stack(buf, true)], 0644)
				}
				tear()
				continue
			}
			if len(sdone)+len(rdone) > 0 {
				continue // a call has returned: handle that first
			}
			if time.Now().Before(nextCensus) {
				continue
			}
			act := atomic.LoadInt64(&pair.activity)
			total, blocked := census()
			if total-base >= pending && total == blocked && act == lastAct {
				quietRuns++
			} else {
				quietRuns = 0
			}
			lastAct = act
			if quietRuns >= 3 {
				// quiescence: every goroutine of both calls is parked and nothing moved
				gmu.Lock()
				if sumWaiters > 0 {
					// a gated digest computation is what everybody waits for: let it go on
					close(sumRelease)
					sumRelease = make(chan struct{})
					gmu.Unlock()
					res.SumReleased++
					quietRuns, lastAct = 0, -1
					continue
				}
				gmu.Unlock()
				if cfg.Hold && !released {
					// release what was held back: the postponed event first, then the blocked hooks
					released = true
					res.HeldReleased = true
					if fireHeld != nil {
						fireHeld()
					}
					close(holdGate)
					quietRuns, lastAct = 0, -1
					continue
				}
				res.Quiesced = true
				tear()
			}
		}
	}
	res.Fired = atomic.LoadInt32(&fired) != 0
	if !res.Hung {
		deadline := time.Now().Add(3 * time.Second)
		for {
			total, _ := c04Census()
			res.Leaks = total - base
			if res.Leaks <= 0 || time.Now().After(deadline) {
				break
			}
			time.Sleep(2 * time.Millisecond)
		}
		if res.Leaks < 0 {
			res.Leaks = 0
		}
	}
	res.Log = pair.Log()
	res.Ov = [4]int32{atomic.LoadInt32(&pair.E[0].ovSend), atomic.LoadInt32(&pair.E[0].ovRecv),
		atomic.LoadInt32(&pair.E[1].ovSend), atomic.LoadInt32(&pair.E[1].ovRecv)}
	res.Scribbled = atomic.LoadInt32(&pair.E[0].scribbled) + atomic.LoadInt32(&pair.E[1].scribbled)
	res.FinS = atomic.LoadInt32(&pair.E[0].finSeen) != 0
	res.FinR = atomic.LoadInt32(&pair.E[1].finSeen) != 0
	nmu.Lock()
	sort.SliceStable(res.Notifs, func(a, b int) bool { return res.Notifs[a].Path < res.Notifs[b].Path })
	nmu.Unlock()
	return res
}

// c04Call runs one of the two calls; its frame marks the goroutine for the census.
func c04Call(done chan<- error, f func() error) { done <- c04Guard(f) }

type c04Panic struct{ v interface{} }

func (p c04Panic) Error() string { return fmt.Sprintf("panic: %v", p.v) }

func c04Guard(f func() error) (err error) {
	defer func() {
		if r := recover(); r != nil {
			err = c04Panic{r}
		}
	}()
	return f()
}

func c04Class(err error) int {
	if err == nil {
		return 0
	}
	return 1
}

// c04DestDiff lists the paths at which the destination differs from the view: presence,
// entry type, file content, symlink target.
func c04DestDiff(view []*MNode, dest string) []string {
	exp := c04Expected(view)
	snap, err := SnapshotRaw(dest, true)
	if err != nil {
		return []string{"<snapshot: " + err.Error() + ">"}
	}
	bad := map[string]bool{}
	seen := map[string]bool{}
	for _, e := range snap {
		seen[e.Path] = true
		n := exp[e.Path]
		if n == nil {
			bad[e.Path] = true
			continue
		}
		m := os.FileMode(n.Stat.Mode)
		if e.Mode&syscall.S_IFMT != unixMode(m)&syscall.S_IFMT {
			bad[e.Path] = true
			continue
		}
		switch {
		case m&os.ModeSymlink != 0:
			if e.Target != n.Stat.Linkname {
				bad[e.Path] = true
			}
		case m&os.ModeType == 0:
			if !bytes.Equal(e.Content, n.Content) {
				bad[e.Path] = true
			}
		}
	}
	for p := range exp {
		if !seen[p] {
			bad[p] = true
		}
	}
	out := make([]string, 0, len(bad))
	for p := range bad {
		out = append(out, p)
	}
	sort.Strings(out)
	return out
}

func c04HasErr(log []c04Pkt, from int) bool {
	for _, p := range log {
		if p.From == from && p.Type == types.PACKET_ERR {
			return true
		}
	}
	return false
}

func c04CountReq(log []c04Pkt) int {
	n := 0
	for _, p := range log {
		if p.From == 1 && p.Type == types.PACKET_REQ {
			n++
		}
	}
	return n
}

var c04Stats = map[string]int{}

// kind 0401.  input: (view prior (fault a b [hold [stall]]) fanout cap chunk [srckind])
//
//	srckind != 0: the view is materialised on disk and served by the real walker (fsutil.NewFS)
//	fault 2: a = which context is cancelled: 0 Send's, 1 Receive's, 2 the stream's, 3 one shared by all
//
//	hold != 0: the fault is held back until no goroutine of either call can move (its hook blocks
//	where it would fail; a cancellation / endpoint failure is postponed, b is ignored), then released;
//	stall = 1 + index of an entry whose ContentHasher / NotifyHashed calls block until that moment
//	and then return normally (0 = none)
//
//	fault 0 none | 1 endpoint a (0 sender's, 1 receiver's) fails from its b-th operation on |
//	2 context of a (0 Send, 1 Receive) cancelled when b packets have crossed (0: before the start) |
//	3 Walk fails at entry a | 4 Read of the file at entry a fails after b chunks |
//	5 Open of the file at entry a fails | 6 ContentHasher fails for entry a | 7 NotifyHashed fails for entry a
//	fanout > 0: gated stream — REQ delivery is held back until that many requests were sent, then
//	every DATA send blocks until tear-down.
//
//	fault 8 (peer vanishes: clean end of stream): a&1 = 0 the receiver / 1 the sender is gone after it has
//	consumed b packets (its operations fail, its context is cancelled; the survivor reads what was already
//	sent and then io.EOF); a&2: the survivor's later writes are dropped silently (else they fail)
//	optional 8th field transport: 1 = util.NewProtoStream over net.Pipe instead of the in-memory stream
//	optional 9th field: != 0 = the source Opens are held until the sender's listing is complete
//
// output: (send recv hung leaks false_success (differing paths) followup err_from_sender err_from_receiver fired bigfan
//
//	fin_seen_by_send fin_seen_by_receive)
//
//	send/recv: 0 nil, 1 error, 2 did not return within 10 s after tear-down; followup: 0 a clean
//	sync into what was left behind converged, 1 it did not, 2 not run (hang)
func run0401(in Sx) (out Sx) {
	defer func() {
		if r := recover(); r != nil {
			out = L(N(9), N(9), N(0), N(0), N(0), L(), N(2), N(0), N(0), N(0), N(0), N(0), N(0), S(fmt.Sprint(r)))
		}
	}()
	view := SxView(in.L[0])
	prior := SxView(in.L[1])
	f := in.L[2]
	work := WorkDir("c04-")
	defer os.RemoveAll(work)
	dest := filepath.Join(work, "dest")
	if err := os.Mkdir(dest, 0755); err != nil {
		panic(err)
	}
	if err := Materialize(prior, dest); err != nil {
		panic("materialize prior: " + err.Error())
	}
	cfg := c04Cfg{View: view, Dest: dest, FaultKind: f.L[0].Int(), FA: f.L[1].Int(), FB: f.L[2].Int(),
		Fanout: in.L[3].Int(), Cap: in.L[4].Int(), Chunk: in.L[5].Int(), Stall: -1}
	if len(f.L) > 3 {
		cfg.Hold = f.L[3].IsTrue()
	}
	if len(f.L) > 4 {
		cfg.Stall = f.L[4].Int() - 1
	}
	if len(in.L) > 7 {
		cfg.Transport = in.L[7].Int()
	}
	if len(in.L) > 8 {
		cfg.OpenGate = in.L[8].IsTrue()
	}
	if len(in.L) > 6 && in.L[6].IsTrue() {
		cfg.SrcDir = filepath.Join(work, "src")
		if err := os.Mkdir(cfg.SrcDir, 0755); err != nil {
			panic(err)
		}
		if err := Materialize(view, cfg.SrcDir); err != nil {
			panic("materialize source: " + err.Error())
		}
	}
	res := c04Run(cfg)
	var diffs []string
	falseSucc := false
	followup := 2
	if !res.Hung {
		diffs = c04DestDiff(view, dest)
		falseSucc = res.Recv == 0 && len(diffs) > 0
		// a later fault-free transfer into whatever was left behind must converge
		r2 := c04Run(c04Cfg{View: view, Dest: dest, Cap: 4, Chunk: cfg.Chunk, Stall: -1, SrcDir: cfg.SrcDir})
		followup = 1
		if r2.Send == 0 && r2.Recv == 0 && !r2.Hung && len(c04DestDiff(view, dest)) == 0 {
			followup = 0
		}
	}
	if res.Recv != 0 {
		diffs = nil // only reported when Receive claimed success
	}
	if len(diffs) > 8 {
		diffs = diffs[:8]
	}
	ds := make([]Sx, len(diffs))
	for i, d := range diffs {
		ds[i] = S(d)
	}
	nreq := c04CountReq(res.Log)
	if res.Quiesced {
		c04Stats["teardown_on_quiescence"]++
	} else {
		c04Stats["teardown_on_return_or_none"]++
	}
	if res.TimedOut {
		c04Stats["never_quiescent_timeout"]++
	}
	if res.HeldReleased {
		c04Stats["held_fault_released_on_quiescence"]++
	}
	return L(NI(res.Send), NI(res.Recv), Bool(res.Hung), NI(res.Leaks), Bool(falseSucc), L(ds...), NI(followup),
		Bool(c04HasErr(res.Log, 0)), Bool(c04HasErr(res.Log, 1)), Bool(res.Fired), Bool(nreq > 132),
		Bool(res.FinS), Bool(res.FinR))
}

// ---------------------------------------------------------------- generators

func c04File(name string, size int, seed uint64, mt int64) *MNode {
	b := make([]byte, size)
	for i := range b {
		seed = seed*6364136223846793005 + 1442695040888963407
		b[i] = byte(seed >> 56)
	}
	return &MNode{Name: name, Content: b, Stat: &types.Stat{Mode: 0644, Size: int64(size), ModTime: mt}}
}

func c04Dir(name string, mt int64, kids ...*MNode) *MNode {
	return &MNode{Name: name, Kids: kids, Stat: &types.Stat{Mode: uint32(os.ModeDir | 0755), ModTime: mt}}
}

func c04Link(name, target string, mt int64) *MNode {
	return &MNode{Name: name, Stat: &types.Stat{Mode: uint32(os.ModeSymlink | 0777), Linkname: target, Size: int64(len(target)), ModTime: mt}}
}

func c04Clone(n *MNode) *MNode {
	c := &MNode{Name: n.Name, Stat: n.Stat.CloneVT(), Content: append([]byte{}, n.Content...)}
	for _, k := range n.Kids {
		c.Kids = append(c.Kids, c04Clone(k))
	}
	return c
}

const c04Mt = int64(1600000000) * 1e9

// c04GenTree: a small view (names ascending, so stored order = walk order) and a prior
// destination derived from it: each entry absent / identical / (files) different size.
func c04GenTree(r *Rng, maxTop int, sizes []int) (view, prior []*MNode) {
	names := []string{"a", "b", "c", "d", "e", "f", "g", "h"}
	n := 1 + r.Intn(maxTop)
	var mkNode func(name string, depth int) *MNode
	mkNode = func(name string, depth int) *MNode {
		mt := c04Mt + int64(r.Intn(1000))*1e9
		x := r.Intn(100)
		switch {
		case x < 20 && depth == 0:
			d := c04Dir(name, mt)
			for i, k := 0, r.Intn(3); i < k; i++ {
				d.Kids = append(d.Kids, mkNode(names[i], depth+1))
			}
			return d
		case x < 28:
			return c04Link(name, Pick(r, []string{"a", "../x", "nowhere"}), mt)
		default:
			return c04File(name, Pick(r, sizes), r.U64(), mt)
		}
	}
	for i := 0; i < n; i++ {
		view = append(view, mkNode(names[i], 0))
	}
	var derive func(ns []*MNode) []*MNode
	derive = func(ns []*MNode) []*MNode {
		var out []*MNode
		for _, nd := range ns {
			x := r.Intn(100)
			switch {
			case x < 45:
				continue
			case x < 85 || nd.IsDir() || os.FileMode(nd.Stat.Mode)&os.ModeType != 0:
				c := c04Clone(nd)
				if nd.IsDir() {
					c.Kids = derive(nd.Kids)
				}
				out = append(out, c)
			default:
				c := c04Clone(nd)
				c.Content = append(c.Content, 'x')
				c.Stat.Size = int64(len(c.Content))
				out = append(out, c)
			}
		}
		return out
	}
	prior = derive(view)
	return
}

func c04CountEntries(ns []*MNode) int {
	c := 0
	for _, n := range ns {
		c++
		if n.IsDir() {
			c += c04CountEntries(n.Kids)
		}
	}
	return c
}

var c04FaultNames = []string{"none", "stream-break", "cancel", "walk-error", "read-error", "open-error", "hasher-error", "notify-error", "peer-vanishes"}

func c04Case(view, prior []*MNode, kind, a, b, fanout, capacity, chunk int) Sx {
	return L(ViewSx(view), ViewSx(prior), L(NI(kind), NI(a), NI(b)), NI(fanout), NI(capacity), NI(chunk))
}

// c04CaseK: the same with the source kind (0 in-memory FS, 1 on-disk tree through fsutil.NewFS).
func c04CaseK(view, prior []*MNode, kind, a, b, fanout, capacity, chunk, srckind int) Sx {
	return L(ViewSx(view), ViewSx(prior), L(NI(kind), NI(a), NI(b)), NI(fanout), NI(capacity), NI(chunk), NI(srckind))
}

// c04CaseT: the same with the transport (0 in-memory stream, 1 util.NewProtoStream over net.Pipe).
func c04CaseT(view, prior []*MNode, kind, a, b, fanout, capacity, chunk, srckind, transport int) Sx {
	return L(ViewSx(view), ViewSx(prior), L(NI(kind), NI(a), NI(b)), NI(fanout), NI(capacity), NI(chunk), NI(srckind), NI(transport))
}

func genC04(g *Gen) {
	r := g.Rng.Fork() // seeds k and k+1 of the shared generator yield the same stream shifted by one draw
	emit := func(in Sx, cls string) {
		out := run0401(in)
		fired := len(out.L) > 9 && out.L[9].IsTrue()
		big := len(out.L) > 10 && out.L[10].IsTrue()
		g.EmitWith(0x0401, in, out, fired || big, cls)
	}
	// (a) large fan-out: more than 132 pending requests, stream gated, tear-down on quiescence
	for i, nfan := 0, g.Vol(3, 24); i < nfan; i++ {
		nf := 134 + r.Intn(30)
		var view []*MNode
		for k := 0; k < nf; k++ {
			view = append(view, c04File(fmt.Sprintf("f%04d", k), 1+r.Intn(3), r.U64(), c04Mt))
		}
		kind, a, b := c04FNone, 0, 0
		if i%3 == 2 {
			kind, a, b = c04FCancel, r.Intn(2), 1+r.Intn(nf)
		}
		emit(c04Case(view, nil, kind, a, b, nf, r.Intn(3), 0), "fanout-"+c04FaultNames[kind])
	}
	// (b) small trees, every fault kind at every kind of position
	n := g.Vol(500, 6000)
	for i := 0; i < n; i++ {
		chunk := 1 + r.Intn(4)
		sizes := []int{0, 1, 2, 3, 5, 8}
		if r.Chance(4) {
			chunk = 0
			sizes = []int{0, 5, 40000, 70000}
		}
		view, prior := c04GenTree(r, 5, sizes)
		ne := c04CountEntries(view)
		kind := r.Intn(9)
		a, b := 0, 0
		switch kind {
		case c04FVanish:
			a, b = r.Intn(4), r.Intn(2*ne+6)
		case c04FBreak:
			a, b = r.Intn(2), r.Intn(3*ne+8)
			if r.Chance(15) {
				b = 0
			}
		case c04FCancel:
			a, b = r.Intn(4), r.Intn(4*ne+8) // which context: Send's / Receive's / the stream's / all
			if r.Chance(15) {
				b = 0
			}
		case c04FWalk:
			a = r.Intn(ne)
		case c04FRead:
			a, b = r.Intn(ne), r.Intn(4)
		case c04FOpen, c04FHash, c04FNotify:
			a = r.Intn(ne)
		}
		srckind := 0
		cls := c04FaultNames[kind]
		if r.Chance(30) {
			srckind = 1
			cls += "/disk-source"
		}
		transport := 0
		if r.Chance(25) {
			transport = 1
			cls += "/protostream-pipe"
		}
		emit(c04CaseT(view, prior, kind, a, b, 0, Pick(r, []int{0, 0, 1, 2, 8, 64}), chunk, srckind, transport), cls)
	}
	// (b2) re-sync into an up-to-date (or nearly up-to-date) destination: no or few requests are
	// outstanding when the fault strikes; every fault kind, cancellation of each of the contexts
	// at every packet position; source mostly on disk (the real walker)
	for i, nr := 0, g.Vol(120, 2000); i < nr; i++ {
		chunk := 1 + r.Intn(4)
		view, _ := c04GenTree(r, 6, []int{0, 1, 2, 3, 5, 8})
		if r.Chance(30) {
			for k, extra := 0, 5+r.Intn(30); k < extra; k++ {
				view = append(view, c04File(fmt.Sprintf("m%03d", k), r.Intn(4), r.U64(), c04Mt+int64(k)))
			}
		}
		var prior []*MNode
		for _, n := range view {
			if r.Chance(8) {
				continue // one of the few entries that is not up to date
			}
			prior = append(prior, c04Clone(n))
		}
		ne := c04CountEntries(view)
		kind, a, b := c04FCancel, r.Intn(4), 1+r.Intn(ne+3)
		switch r.Intn(10) {
		case 0:
			kind, a, b = c04FWalk, r.Intn(ne), 0
		case 1:
			kind, a, b = c04FBreak, r.Intn(2), r.Intn(2*ne+4)
		case 2:
			kind, a, b = c04FNone, 0, 0
		case 3, 4, 5:
			a = 0 // Send's own context
		case 6, 7:
			// the peer vanishes (killed / connection dropped) after it has consumed b packets:
			// around the end of the listing, when the sender has nothing left to write
			kind, a, b = c04FVanish, r.Intn(4), ne+1-r.Intn(3)
			if b < 0 {
				b = 0
			}
		}
		srckind := 1
		if r.Chance(25) {
			srckind = 0
		}
		cls := "resync-" + c04FaultNames[kind]
		if srckind == 1 {
			cls += "/disk-source"
		}
		transport := 0
		if r.Chance(40) {
			transport = 1
			cls += "/protostream-pipe"
		}
		emit(c04CaseT(view, prior, kind, a, b, 0, Pick(r, []int{0, 1, 8, 64}), chunk, srckind, transport), cls)
	}
	// (d) fault-free transfers of many files whose data lags far behind the listing (source Opens
	// held until the listing is complete, bounded stream): they must complete
	// The first case of every run is forced above every buffering level of the receiver: all files
	// are new (each one needs a writer) and their number exceeds writers-in-flight + diff channel +
	// walker channel + both pipelines by a wide margin (>= 640 > 128 + 128 + 128 + 128 + slack), so
	// that with the Opens held EVERY request is outstanding at once whatever the schedule is.
	for i, nd := 0, g.Vol(2, 40); i < nd; i++ {
		nf := 300 + r.Intn(500)
		priorPct := 10
		if i == 0 {
			nf = 640 + r.Intn(160)
			priorPct = 0
		}
		var view, prior []*MNode
		for k := 0; k < nf; k++ {
			f := c04File(fmt.Sprintf("f%04d", k), r.Intn(4), r.U64(), c04Mt+int64(k))
			view = append(view, f)
			if r.Chance(priorPct) {
				prior = append(prior, c04Clone(f))
			}
		}
		in := L(ViewSx(view), ViewSx(prior), L(NI(c04FNone), NI(0), NI(0)), NI(0), Pick(r, []Sx{NI(0), NI(1), NI(8), NI(64)}), NI(1+r.Intn(3)), NI(0), NI(0), NI(1))
		out := run0401(in)
		g.EmitWith(0x0401, in, out, true, "fault-free-many-files-opens-held")
	}
	// (c) long listings: the entries that follow a synchronously handled entry pile up in the
	// receiver's walker channel (128) and diff channel (128) while the diff is held on that entry
	// (listing sizes across the thresholds); the fault is released when everything is parked
	thresholds := []int{0, 1, 100, 127, 128, 129, 200, 255, 256, 257, 258, 259, 260, 300, 400, 600}
	for i, nl := 0, g.Vol(40, 500); i < nl; i++ {
		after := Pick(r, thresholds)
		if r.Chance(15) {
			after = r.Intn(640)
		}
		pos := r.Intn(3)
		var view, prior []*MNode
		for k := 0; k < pos; k++ {
			view = append(view, c04File(fmt.Sprintf("a%03d", k), r.Intn(4), r.U64(), c04Mt))
		}
		var pivot *MNode
		switch r.Intn(10) {
		case 0, 1:
			pivot = c04Link("b-pivot", "nowhere", c04Mt)
		case 2:
			pivot = c04File("b-pivot", 1+r.Intn(3), r.U64(), c04Mt)
		default:
			pivot = c04Dir("b-pivot", c04Mt)
		}
		view = append(view, pivot)
		samePrior := r.Chance(50)
		for k := 0; k < after; k++ {
			f := c04File(fmt.Sprintf("c%04d", k), r.Intn(3), r.U64(), c04Mt+int64(k))
			view = append(view, f)
			if samePrior {
				prior = append(prior, c04Clone(f))
			}
		}
		kind, a, b, hold, stall := c04FNotify, pos, 0, 1, 0
		switch r.Intn(10) {
		case 0, 1:
			kind = c04FHash
		case 2:
			kind, a, stall = c04FCancel, 1+2*r.Intn(2), pos+1 // receiver's context (or all), diff stalled on the pivot
		case 3:
			kind, a, stall = c04FBreak, 1, pos+1
		case 4:
			kind, a, stall = c04FCancel, 0, pos+1
		case 5:
			kind = c04FWalk
		case 6:
			hold = 0 // not held: whenever the callback runs
		}
		in := L(ViewSx(view), ViewSx(prior), L(NI(kind), NI(a), NI(b), NI(hold), NI(stall)), NI(0), Pick(r, []Sx{NI(0), NI(1), NI(8), NI(64)}), NI(1+r.Intn(3)))
		cls := "long-listing-" + c04FaultNames[kind]
		if hold == 1 {
			cls += "-held"
		}
		emit(in, cls)
	}
	// (e) cancellation in the window "diff finished, contents outstanding", forced: the writer of one
	// regular file is stalled in its ContentHasher call (before it sends its request), every other
	// entry completes, the receiver's diff consumes the end of the listing and waits for the
	// writers; at quiescence the receiver's context (or all contexts) is cancelled, then the
	// stalled writer goes on with a dead context.  Receive must fail and must not report success
	// for the file that was never written - whatever the scheduler does.
	for i, nw := 0, g.Vol(4, 60); i < nw; i++ {
		pos, after := r.Intn(3), r.Intn(6)
		var view, prior []*MNode
		for k := 0; k < pos; k++ {
			view = append(view, c04File(fmt.Sprintf("a%03d", k), r.Intn(4), r.U64(), c04Mt))
		}
		view = append(view, c04File("b-pivot", 1+r.Intn(3), r.U64(), c04Mt))
		samePrior := r.Chance(50)
		for k := 0; k < after; k++ {
			f := c04File(fmt.Sprintf("c%04d", k), r.Intn(3), r.U64(), c04Mt+int64(k))
			view = append(view, f)
			if samePrior {
				prior = append(prior, c04Clone(f))
			}
		}
		a := 1
		if i%4 == 3 {
			a = 3
		}
		in := L(ViewSx(view), ViewSx(prior), L(NI(c04FCancel), NI(a), NI(0), NI(1), NI(pos+1)), NI(0), Pick(r, []Sx{NI(0), NI(1), NI(8), NI(64)}), NI(1+r.Intn(3)))
		emit(in, "cancel-held-after-diff-writer-stalled")
	}
	for k, v := range c04Stats {
		g.Note(k, v)
	}
}

// ---------------------------------------------------------------- C08: forced schedules

// c08Hash is the identity hash of e2e.go (Sum returns everything written) with a gate in Sum.
type c08Hash struct {
	recHash
	gate func()
}

func (h *c08Hash) Sum(b []byte) []byte {
	if h.gate != nil {
		g := h.gate
		h.gate = nil
		g()
	}
	return h.recHash.Sum(b)
}

type c08Rng struct {
	mu sync.Mutex
	r  *Rng
}

func (c *c08Rng) intn(n int) int {
	c.mu.Lock()
	defer c.mu.Unlock()
	return c.r.Intn(n)
}

func c08Digest(dest string) string {
	snap, err := SnapshotRaw(dest, true)
	if err != nil {
		return "snapshot: " + err.Error()
	}
	h := sha256.New()
	for _, e := range snap {
		isDir := e.Mode&syscall.S_IFMT == syscall.S_IFDIR
		fmt.Fprintf(h, "%q %o %d %d %q %d\n", e.Path, e.Mode, e.Uid, e.Gid, e.Target, len(e.Content))
		if !isDir {
			fmt.Fprintf(h, "%d %d\n", e.Size, e.MtimeNs)
		}
		h.Write(e.Content)
	}
	return hex.EncodeToString(h.Sum(nil))
}

// kind 0801.  input: (view prior nsched seed chunk [nofile])
// nofile > 0: the soft RLIMIT_NOFILE of the process is lowered to that value while the case runs
// The same transfer is run under nsched forced schedules: stream buffer 0..64, GOMAXPROCS
// 1..16, seeded yields / short sleeps around every stream operation, source read and user
// callback; the stream scribbles over every DATA payload buffer when the next RecvMsg starts.
// output: ((send recv dest_equals_view digest (req ids ascending) ((kind path digest_ok) ...)
//
//	ov_sender_send ov_sender_recv ov_receiver_send ov_receiver_recv scribbled>0 leaks
//	progress_overlaps progress_out_of_order) ...)
//
// Send and Receive are given progress callbacks that count overlapping invocations and totals
// that go backwards.
func run0801(in Sx) (out Sx) {
	defer func() {
		if r := recover(); r != nil {
			out = L(S(fmt.Sprint(r)))
		}
	}()
	view := SxView(in.L[0])
	prior := SxView(in.L[1])
	nsched := in.L[2].Int()
	seed := in.L[3].U64()
	chunk := in.L[4].Int()
	prevProcs := runtime.GOMAXPROCS(0)
	defer runtime.GOMAXPROCS(prevProcs)
	if len(in.L) > 5 && in.L[5].Int() > 0 {
		// resource-bounded run: the soft limit on open descriptors is lowered for all schedules of
		// this case (a correct receiver keeps at most a few files open however far the listing is
		// ahead of the data)
		var old syscall.Rlimit
		if err := syscall.Getrlimit(syscall.RLIMIT_NOFILE, &old); err == nil {
			lim := old
			lim.Cur = uint64(in.L[5].Int())
			if lim.Cur > old.Max {
				lim.Cur = old.Max
			}
			if syscall.Setrlimit(syscall.RLIMIT_NOFILE, &lim) == nil {
				defer syscall.Setrlimit(syscall.RLIMIT_NOFILE, &old)
			}
		}
	}
	var recs []Sx
	for s := 0; s < nsched; s++ {
		rr := &c08Rng{r: NewRng(seed*1000003 + uint64(s))}
		capacity := rr.intn(65)
		procs := 1 + rr.intn(16)
		mode := rr.intn(4) // 0 no perturbation, 1 yields, 2 yields + short sleeps, 3 heavy yields
		switch s {
		case 0:
			capacity, procs, mode = 0, 1, 0
		case 1:
			capacity, procs, mode = 64, 16, 1
		}
		runtime.GOMAXPROCS(procs)
		var perturb func()
		if mode > 0 {
			perturb = func() {
				switch x := rr.intn(16); {
				case x < 6:
				case x < 12 || mode == 1:
					for i, k := 0, 1+rr.intn(1+4*mode); i < k; i++ {
						runtime.Gosched()
					}
				case mode == 2 && x == 15:
					time.Sleep(time.Duration(20+rr.intn(200)) * time.Microsecond)
				default:
					runtime.Gosched()
				}
			}
		}
		work := WorkDir("c08-")
		dest := filepath.Join(work, "dest")
		if err := os.Mkdir(dest, 0755); err != nil {
			panic(err)
		}
		if err := Materialize(prior, dest); err != nil {
			panic("materialize prior: " + err.Error())
		}
		var sumGate func(string) bool
		if s%2 == 1 {
			// gate the digest computation of up to three files until their notification
			gated := 0
			var sgmu sync.Mutex
			sumGate = func(string) bool {
				sgmu.Lock()
				defer sgmu.Unlock()
				if gated < 3 && rr.intn(8) == 0 {
					gated++
					return true
				}
				return false
			}
		}
		// every fourth schedule: the source Opens are held until the sender's listing is complete
		// (the walker runs ahead of the data, bounded stream)
		res := c04Run(c04Cfg{View: view, Dest: dest, Cap: capacity, Chunk: chunk, Scribble: true, Perturb: perturb, Stall: -1, SumGate: sumGate, OpenGate: s%4 == 2, Progress: true})
		if os.Getenv("VERIF_C0408_DEBUG") != "" {
			fmt.Fprintf(os.Stderr, "c08 schedule %d cap=%d: send=%v recv=%v quiesced=%v timedout=%v hung=%v\n", s, capacity, res.SendErr, res.RecvErr, res.Quiesced, res.TimedOut, res.Hung)
		}
		eq := !res.Hung && len(c04DestDiff(view, dest)) == 0
		dg := ""
		if !res.Hung {
			dg = c08Digest(dest)
		}
		var ids []int
		for _, p := range res.Log {
			if p.From == 1 && p.Type == types.PACKET_REQ {
				ids = append(ids, int(p.ID))
			}
		}
		sort.Ints(ids)
		idsx := make([]Sx, len(ids))
		for i, v := range ids {
			idsx[i] = NI(v)
		}
		ns := make([]Sx, len(res.Notifs))
		for i, n := range res.Notifs {
			ns[i] = L(NI(n.Kind), S(n.Path), Bool(n.DigestOK))
		}
		recs = append(recs, L(NI(res.Send), NI(res.Recv), Bool(eq), S(dg), L(idsx...), L(ns...),
			N(uint64(res.Ov[0])), N(uint64(res.Ov[1])), N(uint64(res.Ov[2])), N(uint64(res.Ov[3])),
			Bool(res.Scribbled > 0), NI(res.Leaks), N(uint64(res.ProgOverlap)), N(uint64(res.ProgOOO))))
		os.RemoveAll(work)
	}
	return L(recs...)
}

// kind 0802 (supporting test OUTSIDE the model: data races are not modelled).  input: (ncases seed)
// Builds this harness with `go build -race` against the same fsutil tree and runs the C08
// generator (ncases cases, all their schedules) in that binary; counts the race detector's reports.
// output: (built races cases child_ok info)
func run0802(in Sx) (out Sx) {
	defer func() {
		if r := recover(); r != nil {
			out = L(N(0), N(0), N(0), N(0), S(fmt.Sprint(r)))
		}
	}()
	ncases := in.L[0].Int()
	seed := in.L[1].U64()
	exe, err := os.Executable()
	if err != nil {
		return L(N(0), N(0), N(0), N(0), S("no executable path"))
	}
	hdir := filepath.Dir(exe)
	work := WorkDir("c08race-")
	defer os.RemoveAll(work)
	repo := os.Getenv("VERIF_REPO")
	if repo == "" {
		repo = "/repo"
	}
	if rp, err := filepath.EvalSymlinks(repo); err == nil {
		repo = rp
	}
	mod, err := os.ReadFile(filepath.Join(hdir, "go.mod"))
	if err != nil {
		return L(N(0), N(0), N(0), N(0), S("no go.mod next to the harness binary"))
	}
	modfile := filepath.Join(work, "race.mod")
	os.WriteFile(modfile, []byte(strings.Replace(string(mod), "=> /repo", "=> "+repo, 1)), 0644)
	if sum, err := os.ReadFile(filepath.Join(repo, "go.sum")); err == nil {
		os.WriteFile(filepath.Join(work, "race.sum"), sum, 0644)
	}
	env := append(os.Environ(), "CGO_ENABLED=1", "GOFLAGS=-mod=mod", "GOPROXY=off", "GOSUMDB=off", "GOTOOLCHAIN=local")
	bin := filepath.Join(work, "vh_race")
	bctx, bcancel := context.WithTimeout(context.Background(), 10*time.Minute)
	defer bcancel()
	build := exec.CommandContext(bctx, "go", "build", "-race", "-tags", "verif", "-modfile="+modfile, "-o", bin, ".")
	build.Dir = hdir
	build.Env = env
	if b, err := build.CombinedOutput(); err != nil {
		msg := string(b)
		if len(msg) > 300 {
			msg = msg[len(msg)-300:]
		}
		return L(N(0), N(0), N(0), N(0), S("race build failed: "+msg))
	}
	rctx, rcancel := context.WithTimeout(context.Background(), 20*time.Minute)
	defer rcancel()
	tsv := filepath.Join(work, "r.tsv")
	run := exec.CommandContext(rctx, bin, "gen", "C08", "--seed", fmt.Sprint(seed), "--tier", "quick", "--out", tsv, "--stats", filepath.Join(work, "r.json"))
	run.Env = append(env, "C08_CHILD=1", fmt.Sprintf("C08_CASES=%d", ncases), "VERIF_WORK="+work, "GORACE=halt_on_error=0 exitcode=0")
	var stderr bytes.Buffer
	run.Stderr = &stderr
	rerr := run.Run()
	rep := stderr.String()
	races := strings.Count(rep, "WARNING: DATA RACE")
	cases := 0
	if data, err := os.ReadFile(tsv); err == nil {
		cases = strings.Count(string(data), "\n")
	}
	info := ""
	if races > 0 {
		// the functions of the first report (top frame of each of the two accesses)
		var fns []string
		lines := strings.Split(rep, "\n")
		for i, ln := range lines {
			if (strings.HasPrefix(ln, "Write at") || strings.HasPrefix(ln, "Read at") || strings.HasPrefix(ln, "Previous ")) && i+1 < len(lines) {
				fns = append(fns, strings.TrimSpace(lines[i+1]))
			}
			if len(fns) >= 2 {
				break
			}
		}
		info = strings.Join(fns, " | ")
	} else if rerr != nil {
		info = "child: " + rerr.Error()
		if len(rep) > 200 {
			info += ": " + rep[len(rep)-200:]
		} else {
			info += ": " + rep
		}
	}
	return L(N(1), NI(races), NI(cases), Bool(rerr == nil), S(info))
}

func genC08(g *Gen) {
	r := g.Rng.Fork()
	n := g.Vol(80, 600)
	child := os.Getenv("C08_CHILD") != ""
	if v := os.Getenv("C08_CASES"); v != "" {
		fmt.Sscan(v, &n)
	}
	if !child {
		// supporting test outside the model: the same generator under the race detector (first, in
		// its own process: a fatal "concurrent map writes" there is an output value, not a crash here)
		in := L(NI(g.Vol(24, 600)), N(r.U64()%1000000))
		out := run0802(in)
		built := len(out.L) > 2 && out.L[0].IsTrue() && out.L[2].Int() > 0
		if !built {
			g.Note("race_detector_run", "NOT RUN: "+out.String())
		} else {
			g.Note("race_detector_run", fmt.Sprintf("%d cases under go build -race, %d reports", out.L[2].Int(), out.L[1].Int()))
		}
		g.EmitWith(0x0802, in, out, built, "race-detector-run(supporting, outside the model)")
	}
	nsched := g.Vol(8, 32)
	// large trees: 1000-2000 small files, all needed; under the gated schedules far more entries are
	// announced than any bound on concurrently open writers before the first DATA comes back
	for i, nl := 0, g.Vol(2, 12); i < nl && !child; i++ {
		nf := 1000 + r.Intn(1001)
		var view []*MNode
		for k := 0; k < nf; k++ {
			view = append(view, c04File(fmt.Sprintf("f%05d", k), r.Intn(4), r.U64(), c04Mt+int64(k)))
		}
		// more files than descriptors: the soft RLIMIT_NOFILE is lowered below the number of files
		nofile := Pick(r, []int{128, 256, 512})
		in := L(ViewSx(view), ViewSx(nil), NI(g.Vol(3, 8)), N(r.U64()%1000000), NI(1+r.Intn(3)), NI(nofile))
		g.EmitWith(0x0801, in, run0801(in), true, "large-tree-opens-gated-nofile-limited")
	}
	for i := 0; i < n; i++ {
		var view, prior []*MNode
		chunk := 1 + r.Intn(7)
		cls := "small-tree"
		if i%3 == 0 {
			// many multi-chunk files in flight at once
			nf := 40 + r.Intn(g.Vol(80, 160))
			for k := 0; k < nf; k++ {
				f := c04File(fmt.Sprintf("f%04d", k), r.Intn(6*chunk+2), r.U64(), c04Mt+int64(k))
				view = append(view, f)
				switch x := r.Intn(10); {
				case x < 2:
					prior = append(prior, c04Clone(f))
				case x < 3:
					c := c04Clone(f)
					c.Content = append(c.Content, 'y')
					c.Stat.Size++
					prior = append(prior, c)
				}
			}
			cls = "many-multichunk-files"
			if i%6 == 0 {
				// a few files around the 32 KiB io.CopyBuffer boundary, read in 32 KiB chunks
				chunk = 0
				for k, sz := range []int{32767, 32768, 32769, 70000} {
					if k < len(view) {
						view[k] = c04File(view[k].Name, sz, r.U64(), c04Mt+int64(k))
					}
				}
				prior = nil
				for k := 4; k < len(view); k += 5 {
					prior = append(prior, c04Clone(view[k]))
				}
				cls = "many-files-32k-boundary"
			}
		} else {
			view, prior = c04GenTree(r, 7, []int{0, 1, 2, 3, 5, 8, 13, 40})
		}
		// the prior destination also holds what the source lacks: top-level directories with many
		// entries (around the destination walker's channel capacity, 128) that the receiver has to
		// remove while its destination walker may still be inside them, and a directory where the
		// source has a regular file
		if r.Chance(25) {
			for k, nx := 0, 1+r.Intn(2); k < nx; k++ {
				d := c04Dir(Pick(r, []string{"0-old", "b~old", "f0001~old", "zz-old"})+fmt.Sprint(k), c04Mt)
				for j, nk := 0, Pick(r, []int{2, 60, 127, 128, 129, 131, 150, 200}); j < nk; j++ {
					d.Kids = append(d.Kids, c04File(fmt.Sprintf("k%04d", j), r.Intn(3), r.U64(), c04Mt))
				}
				prior = append(prior, d)
			}
			if r.Chance(50) {
				// a top-level regular file of the source that is a big directory in the prior destination
				for _, n := range view {
					if os.FileMode(n.Stat.Mode)&os.ModeType == 0 {
						var rest []*MNode
						for _, q := range prior {
							if q.Name != n.Name {
								rest = append(rest, q)
							}
						}
						d := c04Dir(n.Name, c04Mt)
						for j, nk := 0, Pick(r, []int{3, 129, 140, 200}); j < nk; j++ {
							d.Kids = append(d.Kids, c04File(fmt.Sprintf("k%04d", j), r.Intn(3), r.U64(), c04Mt))
						}
						prior = append(rest, d)
						break
					}
				}
			}
			cls += "+prior-extras"
		}
		in := L(ViewSx(view), ViewSx(prior), NI(nsched), N(r.U64()%1000000), NI(chunk))
		out := run0801(in)
		nontriv := false
		if len(out.L) > 0 && len(out.L[0].L) > 5 {
			nontriv = len(out.L[0].L[4].L) >= 2 // at least two files in flight
		}
		g.EmitWith(0x0801, in, out, nontriv, cls)
	}
}
