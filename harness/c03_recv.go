package main

// kind 0302: the real fsutil.Receive inside the jail, fed by a scripted (hostile) sender.
//
// input : (setup-ops dest packets merge) | (setup-ops dest packets merge opts)
//   setup-ops  ops of kind 0301 (c03_kernel.go) that build the whole jail: the destination with
//              whatever it already contains, and the sentinel tree outside it
//   dest       the string handed to Receive (absolute, relative, through a symlink, ...)
//   packets    (0 stat) STAT | (0) the empty STAT | (1 id data) DATA | (2) FIN | (3 msg) ERR |
//              (4 id) REQ | (5 type) a packet of an unknown type
//   merge      ReceiveOpt.Merge
//   opts       (metaonly filter): further fields of ReceiveOpt, each () = nil or (default (path ...)):
//              metaonly = ReceiveOpt.MetadataOnly: () = nil or (default (path ...)): the callback answers
//              [default] (true: transfer the entry in full) for every path except the listed ones,
//              where it answers the opposite;
//              filter = ReceiveOpt.Filter: () = nil or ((path ...) uidadd gidadd): the callback answers
//              false (the disk writer skips the change) for the listed paths and everything below
//              them, and adds the two numbers to Uid / Gid of the stat copy it is handed otherwise.
// output: (class t0 destreal before after)
//   class      0 Receive returned nil | 1 it returned an error | 2 it did not return although the
//              sender had closed the stream (it is then cancelled) | 3 the receiver process died
//              in a "closed channel" panic | >= 8 the harness could not run the case
//   t0         time stamp taken before anything ran: mtimes >= t0 were written by the kernel
//   destreal   path of the directory dest resolved to before the run, relative to the jail root
//   before, after   RAW lstat snapshots of the whole jail, taken before / after the Receive call:
//              (path ino nlink type perm uid gid mtime ctime rdev target xattrs content), the root
//              itself as path "", directory before contents, siblings bytewise.
// Everything else (what is outside, what the model predicts) is decided in Glue/C03G.v.
//
// Determinism.  Receive is concurrent (receive loop, diff + disk writer, one finisher per
// requested file).  The scripted sender hands over one packet at a time and then waits until
// the receiver is QUIESCENT: every goroutine that runs receiver code is parked in a channel
// operation / wait group (read off runtime.Stack under stop-the-world).  A goroutine parked
// in a select has nothing delivered to it, so at that point everything the packet caused has
// been done and nothing else will happen before the next packet: the interleaving is the
// sequential one of Model/DiskWriterFs.v.  No hook in /repo is needed for this.

import (
	"bytes"
	"context"
	"os"
	"path/filepath"
	"regexp"
	"runtime"
	"sort"
	"strings"
	"time"

	"github.com/tonistiigi/fsutil"
	"github.com/tonistiigi/fsutil/types"
	"golang.org/x/sys/unix"
)

// ---------------------------------------------------------------- raw snapshot
func c03RawEntry(abs, rel string, st *unix.Stat_t) Sx {
	typ := uint64(st.Mode & unix.S_IFMT)
	var rdev uint64
	target := ""
	var content []byte
	switch typ {
	case unix.S_IFLNK:
		target, _ = os.Readlink(abs)
	case unix.S_IFREG:
		content, _ = os.ReadFile(abs)
	case unix.S_IFCHR, unix.S_IFBLK:
		rdev = uint64(st.Rdev)
	}
	xa := listXattrs(abs)
	keys := make([]string, 0, len(xa))
	for k := range xa {
		keys = append(keys, k)
	}
	sort.Strings(keys)
	xs := make([]Sx, 0, len(keys))
	for _, k := range keys {
		xs = append(xs, L(S(k), B(xa[k])))
	}
	return L(S(rel), N(st.Ino), N(uint64(st.Nlink)), N(typ), N(uint64(st.Mode&07777)), N(uint64(st.Uid)), N(uint64(st.Gid)),
		I64(st.Mtim.Sec*1e9+st.Mtim.Nsec), I64(st.Ctim.Sec*1e9+st.Ctim.Nsec), N(rdev), S(target), L(xs...), B(content))
}

var c03TmpName = regexp.MustCompile(`^\.tmp\.[0-9]{9}$`)

// c03SnapshotRaw walks with lstat only (never through a symlink).  A temporary name of the
// disk writer (".tmp.<9 digits>", process-wide pseudo random) is reported as ".tmp.0", the
// name the model uses.
func c03SnapshotRaw(root string) Sx {
	var out []Sx
	add := func(abs, rel string) bool {
		var st unix.Stat_t
		if err := unix.Lstat(abs, &st); err != nil {
			return false
		}
		out = append(out, c03RawEntry(abs, rel, &st))
		return st.Mode&unix.S_IFMT == unix.S_IFDIR
	}
	var rec func(abs, rel string)
	rec = func(abs, rel string) {
		f, err := os.Open(abs)
		if err != nil {
			return
		}
		names, _ := f.Readdirnames(-1)
		f.Close()
		type nm struct{ real, shown string }
		ns := make([]nm, len(names))
		for i, n := range names {
			ns[i] = nm{n, n}
			if c03TmpName.MatchString(n) {
				ns[i].shown = ".tmp.0"
			}
		}
		sort.Slice(ns, func(i, j int) bool { return ns[i].shown < ns[j].shown })
		for _, n := range ns {
			a := strings.TrimSuffix(abs, "/") + "/" + n.real
			r := n.shown
			if rel != "" {
				r = rel + "/" + n.shown
			}
			if add(a, r) {
				rec(a, r)
			}
		}
	}
	if add(root, "") {
		rec(root, "")
	}
	return L(out...)
}

// ---------------------------------------------------------------- quiescence
var (
	c03MarkPkg   = []byte("github.com/tonistiigi/fsutil.")
	c03MarkGroup = []byte("golang.org/x/sync/errgroup.")
	c03MarkTramp = []byte("main.c03RecvTrampoline")
)

// c03Quiescent: 1 = no goroutine that runs (or is about to run) receiver code can make a step;
// 2 = the only ones that are not parked sit in a system call; 0 = something is running.
func c03Quiescent(buf []byte) int {
	n := runtime.Stack(buf, true)
	if n == len(buf) {
		return 0 // truncated dump: cannot tell
	}
	res := 1
	for _, blk := range bytes.Split(buf[:n], []byte("\n\n")) {
		if !bytes.Contains(blk, c03MarkPkg) && !bytes.Contains(blk, c03MarkGroup) && !bytes.Contains(blk, c03MarkTramp) {
			continue
		}
		i := bytes.IndexByte(blk, '[')
		j := bytes.IndexByte(blk, ']')
		if i < 0 || j < i {
			return 0
		}
		state := string(blk[i+1 : j])
		if k := strings.IndexByte(state, ','); k >= 0 {
			state = state[:k]
		}
		switch state {
		case "select", "chan receive", "chan send", "semacquire", "sync.WaitGroup.Wait", "sync.Cond.Wait":
		case "syscall":
			res = 2
		default:
			return 0
		}
	}
	return res
}

// waits until the receiver is quiescent or Receive has returned (then also until the
// goroutines it left behind are gone); false = gave up: after the time limit, or earlier when
// for c03BlockedFor without interruption every poll found a receiver goroutine inside a
// system call and nothing else running (a call that blocks, e.g. the open of a FIFO)
const c03BlockedFor = 1500 * time.Millisecond

func c03Settle(buf []byte, limit time.Duration) bool {
	deadline := time.Now().Add(limit)
	var blockedSince time.Time
	for i := 0; ; i++ {
		switch c03Quiescent(buf) {
		case 1:
			return true
		case 2:
			if blockedSince.IsZero() {
				blockedSince = time.Now()
			} else if time.Since(blockedSince) > c03BlockedFor {
				return false
			}
		default:
			blockedSince = time.Time{}
		}
		if time.Now().After(deadline) {
			return false
		}
		if i < 20 {
			runtime.Gosched()
		} else {
			time.Sleep(50 * time.Microsecond)
		}
	}
}

// c03HoldFifos opens every FIFO of the jail read-write and keeps it open during the run: an
// open(O_WRONLY) of such a FIFO by the code under test then returns at once instead of blocking
// for ever (the receiver has no business opening one; a variant that does shows up as a
// difference in the snapshot, not as a hung process).
func c03HoldFifos(snap Sx) (fds []int) {
	for _, e := range snap.L {
		if e.L[3].U64() == unix.S_IFIFO {
			if fd, err := unix.Open("/"+e.L[0].Str(), unix.O_RDWR|unix.O_NONBLOCK|unix.O_CLOEXEC, 0); err == nil {
				fds = append(fds, fd)
			}
		}
	}
	return fds
}

func c03RecvTrampoline(ctx context.Context, st fsutil.Stream, dest string, opt fsutil.ReceiveOpt, started chan<- struct{}, done chan<- error) {
	close(started) // from here on this goroutine shows the marker frame in every stack dump
	done <- fsutil.Receive(ctx, st, dest, opt)
}

// a callback of ReceiveOpt given as (default (path ...)); () = nil
func c03PathPred(x Sx) fsutil.FilterFunc {
	if len(x.L) != 2 {
		return nil
	}
	def := x.L[0].IsTrue()
	set := map[string]bool{}
	for _, p := range x.L[1].L {
		set[p.Str()] = true
	}
	return func(p string, _ *types.Stat) bool { return def != set[p] }
}

func c03Filter(x Sx) fsutil.FilterFunc {
	if len(x.L) != 3 && len(x.L) != 4 {
		return nil
	}
	exact := len(x.L) == 4 // reject the listed paths only (replay of a witness; never generated)
	var rej []string
	for _, p := range x.L[0].L {
		rej = append(rej, p.Str())
	}
	ua, ga := uint32(x.L[1].U64()), uint32(x.L[2].U64())
	return func(p string, st *types.Stat) bool {
		for _, q := range rej {
			if p == q || (!exact && strings.HasPrefix(p, q+"/")) {
				return false
			}
		}
		st.Uid += ua
		st.Gid += ga
		return true
	}
}

func c03RecvOpt(in Sx) fsutil.ReceiveOpt {
	opt := fsutil.ReceiveOpt{Merge: in.L[3].IsTrue()}
	if len(in.L) > 4 && len(in.L[4].L) == 2 {
		opt.MetadataOnly = c03PathPred(in.L[4].L[0])
		opt.Filter = c03Filter(in.L[4].L[1])
	}
	return opt
}

func c03Packet(x Sx) *types.Packet {
	switch x.L[0].Int() {
	case 0:
		if len(x.L) == 1 {
			return &types.Packet{Type: types.PACKET_STAT}
		}
		return &types.Packet{Type: types.PACKET_STAT, Stat: SxStat(x.L[1])}
	case 1:
		return &types.Packet{Type: types.PACKET_DATA, ID: uint32(x.L[1].U64()), Data: append([]byte{}, x.L[2].B...)}
	case 2:
		return &types.Packet{Type: types.PACKET_FIN}
	case 3:
		return &types.Packet{Type: types.PACKET_ERR, Data: append([]byte{}, x.L[1].B...)}
	case 4:
		return &types.Packet{Type: types.PACKET_REQ, ID: uint32(x.L[1].U64())}
	default:
		return &types.Packet{Type: types.Packet_PacketType(int32(x.L[1].U64()))}
	}
}

const c03BeforeFile = "c03-before.sx" // in the worker's base directory, outside every jail

func c03WriteBase(name string, data []byte) {
	fd, err := unix.Openat(c03basefd, name, unix.O_WRONLY|unix.O_CREAT|unix.O_TRUNC, 0600)
	if err != nil {
		return
	}
	f := os.NewFile(uintptr(fd), name)
	f.Write(data)
	f.Close()
}

func child0302(in Sx) Sx {
	unix.Unlinkat(c03basefd, c03BeforeFile, 0)
	t0 := time.Now().UnixNano() - 2e9
	for _, op := range in.L[0].L {
		c03ExecOp(op, t0)
	}
	unix.Chdir("/")
	dest := in.L[1].Str()
	real, err := filepath.EvalSymlinks(dest)
	if err != nil {
		return L(N(8), S("dest: "+err.Error()))
	}
	if real, err = filepath.Abs(real); err != nil {
		return L(N(8), S("dest: "+err.Error()))
	}
	real = strings.TrimPrefix(real, "/")
	before := c03SnapshotRaw("/")
	head := L(N(uint64(t0)), S(real), before)
	// kept outside the jail: a receiver that dies in a panic takes this process with it, and
	// the next worker finishes the case from here (c03Post0302)
	c03WriteBase(c03BeforeFile, []byte(head.String()))
	for _, fd := range c03HoldFifos(before) {
		defer unix.Close(fd)
	}

	ctx, cancel := context.WithCancel(context.Background())
	defer cancel()
	sp := NewStreamPair(ctx, 4)
	done := make(chan error, 1)
	go func() { // everything the receiver sends (REQ, FIN, ERR) is read and dropped
		for {
			var p types.Packet
			if sp.A.RecvMsg(&p) != nil {
				return
			}
		}
	}()
	started := make(chan struct{})
	go c03RecvTrampoline(ctx, sp.B, dest, c03RecvOpt(in), started, done)
	<-started

	buf := make([]byte, 1<<20)
	class := -1
	var rerr error
	returned := false
	poll := func() {
		if !returned {
			select {
			case rerr = <-done:
				returned = true
			default:
			}
		}
	}
	if !c03Settle(buf, 5*time.Second) {
		class = 10
	}
	for _, x := range in.L[2].L {
		poll()
		if returned || class >= 0 {
			break
		}
		if err := sp.A.SendMsg(c03Packet(x)); err != nil {
			break
		}
		if !c03Settle(buf, 5*time.Second) {
			class = 10 // never quiescent: reported, not guessed
		}
	}
	sp.A.CloseSend()
	if class < 0 && !c03Settle(buf, 5*time.Second) {
		class = 10
	}
	poll()
	if class < 0 {
		switch {
		case !returned:
			if os.Getenv("C03DEBUG") != "" {
				n := runtime.Stack(buf, true)
				c03WriteBase("c03-debug.txt", buf[:n])
			}
			class = 2 // quiescent, stream closed, and Receive still has not returned
		case rerr == nil:
			class = 0
		default:
			class = 1
		}
	}
	cancel()
	if !returned {
		select {
		case rerr = <-done:
		case <-time.After(2 * time.Second):
			class = 11
		}
	}
	sp.TearDown(nil)
	if !c03Settle(buf, 2*time.Second) {
		c03Tainted = true
	}
	after := c03SnapshotRaw("/")
	return L(NI(class), head.L[0], head.L[1], before, after)
}

// c03Post0302 finishes a case whose worker died inside Receive: the jail is still on disk.
func c03Post0302(class int) Sx {
	unix.Fchdir(c03basefd)
	unix.Chroot(".")
	data, err := os.ReadFile(c03BeforeFile)
	if err != nil {
		return L(N(9), S("no before file"))
	}
	head, err := ParseSx(string(data))
	if err != nil || len(head.L) != 3 {
		return L(N(9), S("bad before file"))
	}
	if err := unix.Chroot("j"); err != nil {
		return L(N(9), S("jail gone"))
	}
	unix.Chdir("/")
	after := c03SnapshotRaw("/")
	unix.Fchdir(c03basefd)
	unix.Chroot(".")
	os.RemoveAll("j")
	return L(NI(class), head.L[0], head.L[1], head.L[2], after)
}
