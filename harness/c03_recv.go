package main

func child0302(in Sx) Sx { return L(S("todo")) }

func genC03Streams(g *Gen) {}
