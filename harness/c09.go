package main

// C09 — Walk lists every entry once, parents first, in protocol path order, true stats.
//
// Kinds:
//   0901  input (view extra-links target api)        -> (snapshot callbacks err)
//         api 0 = NewFS(dir).Walk(ctx, target, fn); 1 = fsutil.WalkDir(ctx, dir, nil, fn);
//         2 = fsutil.WalkDir(ctx, dir, &FilterOpt{}, fn); 3 = fsutil.Walk(ctx, dir, nil, fn)
//         optional 5th field rootform: HOW the walked directory is named to NewFS / Walk / WalkDir
//         (real directory, symlink to it with absolute / relative link text, symlink chain, through a
//         symlinked intermediate component, trailing slash, "." / ".." segments, ".." after a symlink,
//         relative to the working directory ..., and the directory being the FILESYSTEM ROOT, named "/", "//",
//         "/.", "/..", "." - the walk then runs in a child process chroot-ed into it; see c09PlaceRoot).  The snapshot is always taken of
//         the directory the name RESOLVES to (checked with the kernel: os.Stat(name) is the same file).
//   0902  input (((dirstat view extra-links [rootform]) ...) target) -> ((snapshot ...) callbacks err)
//         SubDirFS over one NewFS per sub-root; target "" or a sub-target "name/rest"
//   0904  input (view extra-links rootform (step ...)) -> (snapshot ((callbacks err) ...))
//         walk HISTORY on one NewFS value: step = target (Walk) or list of paths (FollowLinks)
//   0905  input (((dirstat view extra-links [rootform]) ...) (step ...)) -> ((snapshot ...) ((callbacks err) ...))
//         walk history on one SubDirFS value
//
// The input is self-contained: `run` materialises the view in a scratch directory (as root on
// ext4), applies the extra hard links, takes the independent snapshot (SnapshotRaw: its own
// lstat / readlink / llistxattr), runs the real walker recording every callback with every Stat
// field, removes the directory, and returns both.  The glue feeds the snapshot to the model.

import (
	"bytes"
	"context"
	"fmt"
	"io"
	gofs "io/fs"
	"os"
	"os/exec"
	"path/filepath"
	"sort"
	"strings"
	"time"

	"github.com/tonistiigi/fsutil"
	"github.com/tonistiigi/fsutil/types"
	"golang.org/x/sys/unix"
)

func init() {
	kinds[0x0901] = run0901
	kinds[0x0902] = run0902
	kinds[0x0903] = run0903
	kinds[0x0904] = run0904
	kinds[0x0905] = run0905
	props["C09"] = genC09
}

// guarded runs f with panic recovery and a 10 s watchdog.
func guarded(f func() Sx) Sx {
	ch := make(chan Sx, 1)
	go func() {
		defer func() {
			if r := recover(); r != nil {
				ch <- L(N(0xffff), S(fmt.Sprint(r)))
			}
		}()
		ch <- f()
	}()
	select {
	case v := <-ch:
		return v
	case <-time.After(10 * time.Second):
		return L(N(0xfffd), S("hang"))
	}
}

func harnessErr(err error) Sx { return L(N(0xfffe), S(err.Error())) }

// c09Materialize = shared Materialize + extra hard links (src dst), which may name any
// non-directory (symlinks, fifos, devices, sockets): linkat does not follow symlinks.
func c09Materialize(view []*MNode, extras Sx, dir string) error {
	if err := Materialize(view, dir); err != nil {
		return err
	}
	for _, e := range extras.L {
		if err := os.Link(filepath.Join(dir, e.L[0].Str()), filepath.Join(dir, e.L[1].Str())); err != nil {
			return err
		}
	}
	return nil
}

func snapSx(dir string) (Sx, error) {
	raw, err := SnapshotRaw(dir, false)
	if err != nil {
		return Sx{}, err
	}
	out := make([]Sx, len(raw))
	for i, e := range raw {
		out[i] = e.Sx()
	}
	return L(out...), nil
}

type c09rec struct{ cbs []Sx }

func (r *c09rec) dirFn(p string, d gofs.DirEntry, err error) error {
	if err != nil {
		return err
	}
	fi, err := d.Info()
	if err != nil {
		return err
	}
	st, ok := fi.Sys().(*types.Stat)
	if !ok {
		return fmt.Errorf("no stat")
	}
	r.cbs = append(r.cbs, L(S(p), StatSx(st)))
	return nil
}

func (r *c09rec) walkFn(p string, fi os.FileInfo, err error) error {
	if err != nil {
		return err
	}
	st, ok := fi.Sys().(*types.Stat)
	if !ok {
		return fmt.Errorf("no stat")
	}
	r.cbs = append(r.cbs, L(S(p), StatSx(st)))
	return nil
}

func errCode(err error) Sx {
	if err != nil {
		return N(1)
	}
	return N(0)
}

func run0901(in Sx) Sx {
	return guarded(func() Sx {
		view := SxView(in.L[0])
		target := in.L[2].Str()
		api := in.L[3].Int()
		rootform := 0
		if len(in.L) > 4 {
			rootform = in.L[4].Int()
		}
		dir := WorkDir("c09-")
		defer os.RemoveAll(dir)
		// realdir = the directory that holds the tree; root = the name handed to fsutil
		realdir, root, err := c09PlaceRoot(dir, rootform)
		if err != nil {
			return harnessErr(err)
		}
		if err := c09Materialize(view, in.L[1], realdir); err != nil {
			return harnessErr(err)
		}
		if err := c09SameDir(root, realdir, rootform); err != nil {
			return harnessErr(err)
		}
		snap, err := snapSx(realdir)
		if err != nil {
			return harnessErr(err)
		}
		res, err := c09RunReq(c09Jail(rootform, realdir), L(N(1), S(root), S(target), NI(api)))
		if err != nil {
			return harnessErr(err)
		}
		if len(res.L) != 2 || res.L[0].Kind != 'l' {
			return res // panic of the code under test inside the child
		}
		return L(snap, res.L[0], res.L[1])
	})
}

// c09Composite materialises every sub-root, snapshots it, opens one NewFS per sub-root and builds the
// SubDirFS.  code: 0 = ok, 1 = NewFS refused a sub-root, 2 = SubDirFS refused the list (both are outcomes
// of the code under test); herr = the harness itself failed.
func c09Composite(sds Sx, dir string) (snaps []Sx, sfs fsutil.FS, code uint64, herr error) {
	var dirs []fsutil.Dir
	var newfsErr error
	for i, sd := range sds.L {
		rootform := 0
		if len(sd.L) > 3 {
			rootform = sd.L[3].Int()
		}
		if rootform >= c09RootFormsNoJail {
			return nil, nil, 0, fmt.Errorf("root form %d needs a chroot child: not available for sub-roots", rootform)
		}
		sub := filepath.Join(dir, fmt.Sprintf("s%d", i))
		if err := os.Mkdir(sub, 0755); err != nil {
			return nil, nil, 0, err
		}
		realdir, root, err := c09PlaceRoot(sub, rootform)
		if err != nil {
			return nil, nil, 0, err
		}
		if err := c09Materialize(SxView(sd.L[1]), sd.L[2], realdir); err != nil {
			return nil, nil, 0, err
		}
		if err := c09SameDir(root, realdir, rootform); err != nil {
			return nil, nil, 0, err
		}
		snap, err := snapSx(realdir)
		if err != nil {
			return nil, nil, 0, err
		}
		snaps = append(snaps, snap)
		f, err := fsutil.NewFS(root)
		if err != nil {
			newfsErr = err
			continue
		}
		dirs = append(dirs, fsutil.Dir{Stat: SxStat(sd.L[0]), FS: f})
	}
	if newfsErr != nil {
		return snaps, nil, 1, nil
	}
	sfs, err := fsutil.SubDirFS(dirs)
	if err != nil {
		return snaps, nil, 2, nil
	}
	return snaps, sfs, 0, nil
}

func run0902(in Sx) Sx {
	return guarded(func() Sx {
		dir := WorkDir("c09s-")
		defer os.RemoveAll(dir)
		snaps, sfs, code, herr := c09Composite(in.L[0], dir)
		if herr != nil {
			return harnessErr(herr)
		}
		if code != 0 {
			return L(L(snaps...), L(), N(code))
		}
		rec := &c09rec{}
		werr := sfs.Walk(context.Background(), in.L[1].Str(), rec.dirFn)
		return L(L(snaps...), L(rec.cbs...), errCode(werr))
	})
}

// c09Steps runs a HISTORY on one FS value: a step is a target (x...) = Walk(ctx, target, fn) with Info()
// on every entry, whose callbacks are recorded and judged, or a list of paths ((x...) ...) =
// fsutil.FollowLinks(f, paths) (which walks the FS internally; its result is not part of this property).
// Returns one (callbacks err) per Walk step.
func c09Steps(f fsutil.FS, steps Sx, failCode uint64) []Sx {
	var outs []Sx
	for _, st := range steps.L {
		if st.Kind == 'l' {
			if f != nil {
				var paths []string
				for _, p := range st.L {
					paths = append(paths, p.Str())
				}
				fsutil.FollowLinks(f, paths)
			}
			continue
		}
		if f == nil {
			outs = append(outs, L(L(), N(failCode)))
			continue
		}
		rec := &c09rec{}
		werr := f.Walk(context.Background(), st.Str(), rec.dirFn)
		outs = append(outs, L(L(rec.cbs...), errCode(werr)))
	}
	return outs
}

// run0904: input (view extra-links rootform (step ...)) -> (snapshot ((callbacks err) ...)): ONE NewFS value,
// walked once per step.  Every walk must stand alone (seenFiles is per Walk call).
func run0904(in Sx) Sx {
	return guarded(func() Sx {
		dir := WorkDir("c09h-")
		defer os.RemoveAll(dir)
		realdir, root, err := c09PlaceRoot(dir, in.L[2].Int())
		if err != nil {
			return harnessErr(err)
		}
		if err := c09Materialize(SxView(in.L[0]), in.L[1], realdir); err != nil {
			return harnessErr(err)
		}
		if err := c09SameDir(root, realdir, in.L[2].Int()); err != nil {
			return harnessErr(err)
		}
		snap, err := snapSx(realdir)
		if err != nil {
			return harnessErr(err)
		}
		res, err := c09RunReq(c09Jail(in.L[2].Int(), realdir), L(N(4), S(root), in.L[3]))
		if err != nil {
			return harnessErr(err)
		}
		if len(res.L) == 2 && res.L[0].Kind == 'n' {
			return res // panic of the code under test inside the child
		}
		return L(snap, res)
	})
}

// run0905: input (((dirstat view extra-links [rootform]) ...) (step ...)) -> ((snapshot ...) ((callbacks err) ...)):
// ONE SubDirFS value (hence one inner FS value per sub-root), walked once per step.
func run0905(in Sx) Sx {
	return guarded(func() Sx {
		dir := WorkDir("c09t-")
		defer os.RemoveAll(dir)
		snaps, sfs, code, herr := c09Composite(in.L[0], dir)
		if herr != nil {
			return harnessErr(herr)
		}
		if code != 0 {
			sfs = nil
		}
		return L(L(snaps...), L(c09Steps(sfs, in.L[1], code)...))
	})
}

// run0903: two views on two separate tmpfs mounts below one root (inode numbers collide across
// devices).  Snapshot entries carry st_dev as a 13th field.  (#fffc msg) if mounting is refused.
func run0903(in Sx) Sx {
	return guarded(func() Sx {
		dir := WorkDir("c09m-")
		defer os.RemoveAll(dir)
		root := filepath.Join(dir, "r")
		var mounted []string
		defer func() {
			for _, m := range mounted {
				unix.Unmount(m, unix.MNT_DETACH)
			}
		}()
		for i, name := range []string{"m1", "m2"} {
			mp := filepath.Join(root, name)
			if err := os.MkdirAll(mp, 0755); err != nil {
				return harnessErr(err)
			}
			if err := unix.Mount("none", mp, "tmpfs", 0, ""); err != nil {
				return L(N(0xfffc), S("mount: "+err.Error()))
			}
			mounted = append(mounted, mp)
			if err := Materialize(SxView(in.L[i]), mp); err != nil {
				return harnessErr(err)
			}
		}
		raw, err := SnapshotRaw(root, false)
		if err != nil {
			return harnessErr(err)
		}
		snap := make([]Sx, len(raw))
		for i, e := range raw {
			var st unix.Stat_t
			if err := unix.Lstat(filepath.Join(root, e.Path), &st); err != nil {
				return harnessErr(err)
			}
			x := e.Sx()
			x.L = append(x.L, N(uint64(st.Dev)))
			snap[i] = x
		}
		f, err := fsutil.NewFS(root)
		if err != nil {
			return harnessErr(err)
		}
		rec := &c09rec{}
		werr := f.Walk(context.Background(), in.L[2].Str(), rec.dirFn)
		return L(L(snap...), L(rec.cbs...), errCode(werr))
	})
}

// ---------------------------------------------------------------- how the root is named

// Root forms: the same directory reached under different names.  Every form resolves (by the
// kernel's path resolution) to realdir; what differs is the string handed to NewFS/Walk/WalkDir.
const (
	c09RootReal      = iota // <dir>/r
	c09RootSymAbs           // <dir>/la -> <dir>/r          last component is a symlink, absolute text
	c09RootSymRel           // <dir>/lr -> r                last component is a symlink, relative text
	c09RootSymChain         // <dir>/l2 -> l1 -> r          symlink to a symlink
	c09RootMidSymAbs        // <dir>/mid/r, mid -> <dir>/real    symlinked INTERMEDIATE component
	c09RootMidSymRel        // <dir>/mid/r, mid -> real
	c09RootSlash            // <dir>/r/
	c09RootDotSegs          // <dir>/./x/../r//.            lexical noise only
	c09RootSymSlash         // <dir>/lr/                    symlink + trailing slash
	c09RootSymDot           // <dir>/lr/.                   symlink + "." segment
	c09RootSymDotDot        // <dir>/sl/../r, sl -> o/deep: ".." AFTER a symlink; resolves to <dir>/o/r,
	//                           while the purely lexical reading <dir>/r is a decoy directory
	c09RootRelCwd    // the real directory, relative to the process working directory
	c09RootSymRelCwd // a symlink to it, relative to the process working directory
	// the directory IS the filesystem root: the code under test runs in a child process chroot-ed into
	// <dir>/r (cwd "/"), and the root is named
	c09RootFsRoot       // "/"
	c09RootFsRootSlash  // "//"
	c09RootFsRootDot    // "/."
	c09RootFsRootDotDot // "/.."        (".." of the root is the root)
	c09RootFsRootNoise  // "/./..//"
	c09RootFsRootCwd    // "."          (relative; the working directory is the root)
	c09RootForms        // number of forms
)

const c09RootFormsNoJail = c09RootFsRoot // forms below this number need no chroot child

var c09RootFormNames = []string{"real", "symabs", "symrel", "symchain", "midsymabs", "midsymrel", "slash",
	"dotsegs", "symslash", "symdot", "symdotdot", "relcwd", "symrelcwd",
	"fsroot", "fsroot-slash", "fsroot-dot", "fsroot-dotdot", "fsroot-noise", "fsroot-cwd"}

// c09Jail: for the fsroot forms the directory to chroot into ("" = run in this process)
func c09Jail(form int, realdir string) string {
	if form >= c09RootFsRoot && form < c09RootForms {
		return realdir
	}
	return ""
}

func c09RelToCwd(p string) (string, error) {
	cwd, err := os.Readlink("/proc/self/cwd") // physical working directory
	if err != nil {
		return "", err
	}
	return filepath.Rel(cwd, p)
}

// c09PlaceRoot creates, below the scratch directory dir, the (empty) directory that will hold the
// tree and whatever links the form needs; returns (that directory, the name to hand to fsutil).
func c09PlaceRoot(dir string, form int) (string, string, error) {
	j := func(e ...string) string { return filepath.Join(append([]string{dir}, e...)...) }
	realdir := j("r")
	switch form {
	case c09RootMidSymAbs, c09RootMidSymRel:
		realdir = j("real", "r")
	case c09RootSymDotDot:
		realdir = j("o", "r")
	}
	if err := os.MkdirAll(realdir, 0755); err != nil {
		return "", "", err
	}
	name := realdir
	var err error
	switch form {
	case c09RootReal:
	case c09RootSymAbs:
		name = j("la")
		err = os.Symlink(realdir, name)
	case c09RootSymRel:
		name = j("lr")
		err = os.Symlink("r", name)
	case c09RootSymChain:
		name = j("l2")
		if err = os.Symlink("r", j("l1")); err == nil {
			err = os.Symlink("l1", name)
		}
	case c09RootMidSymAbs:
		name = j("mid") + "/r"
		err = os.Symlink(j("real"), j("mid"))
	case c09RootMidSymRel:
		name = j("mid") + "/r"
		err = os.Symlink("real", j("mid"))
	case c09RootSlash:
		name = realdir + "/"
	case c09RootDotSegs:
		if err = os.Mkdir(j("x"), 0755); err == nil {
			name = dir + "/./x/../r//."
		}
	case c09RootSymSlash:
		name = j("lr") + "/"
		err = os.Symlink("r", j("lr"))
	case c09RootSymDot:
		name = j("lr") + "/."
		err = os.Symlink("r", j("lr"))
	case c09RootSymDotDot:
		if err = os.MkdirAll(j("o", "deep"), 0755); err != nil {
			break
		}
		if err = os.Mkdir(j("r"), 0755); err != nil { // decoy: what a lexical Clean would pick
			break
		}
		if err = os.WriteFile(j("r", "decoy"), []byte("decoy"), 0644); err != nil {
			break
		}
		name = j("sl") + "/../r"
		err = os.Symlink("o/deep", j("sl"))
	case c09RootRelCwd:
		name, err = c09RelToCwd(realdir)
	case c09RootSymRelCwd:
		if err = os.Symlink("r", j("lr")); err == nil {
			name, err = c09RelToCwd(j("lr"))
		}
	case c09RootFsRoot:
		name = "/"
	case c09RootFsRootSlash:
		name = "//"
	case c09RootFsRootDot:
		name = "/."
	case c09RootFsRootDotDot:
		name = "/.."
	case c09RootFsRootNoise:
		name = "/./..//"
	case c09RootFsRootCwd:
		name = "."
	default:
		err = fmt.Errorf("unknown root form %d", form)
	}
	return realdir, name, err
}

// c09SameDir checks with the kernel (stat follows symlinks, independent of fsutil / filepath)
// that name resolves to the directory realdir: the harness layout is what it claims to be.
func c09SameDir(name, realdir string, form int) error {
	if c09Jail(form, realdir) != "" {
		return nil // inside the chroot child "/" (and "." after chdir("/")) IS realdir by construction
	}
	a, err := os.Stat(name)
	if err != nil {
		return err
	}
	b, err := os.Lstat(realdir)
	if err != nil {
		return err
	}
	if !b.IsDir() || !os.SameFile(a, b) {
		return fmt.Errorf("root name %q does not resolve to %q", name, realdir)
	}
	return nil
}

func c09PickRootForm(r *Rng) int {
	if r.Chance(50) {
		return c09RootReal
	}
	return 1 + r.Intn(c09RootForms-1)
}

// sub-roots of a composite cannot each be "/": forms that need no chroot child
func c09PickRootFormNoJail(r *Rng) int {
	if r.Chance(50) {
		return c09RootReal
	}
	return 1 + r.Intn(c09RootFormsNoJail-1)
}

// ---------------------------------------------------------------- running the walk here or in a chroot child

// A walk request: (#1 root target api) -> (callbacks err);  (#4 root (step ...)) -> ((callbacks err) ...)
func c09DoReq(req Sx) Sx {
	root := req.L[1].Str()
	switch req.L[0].Int() {
	case 1:
		target, api := req.L[2].Str(), req.L[3].Int()
		rec := &c09rec{}
		ctx := context.Background()
		var werr error
		switch api {
		case 0:
			// a refusal of NewFS is an outcome of the code under test (reported as the walk's error)
			f, err := fsutil.NewFS(root)
			if err != nil {
				werr = err
			} else {
				werr = f.Walk(ctx, target, rec.dirFn)
			}
		case 1:
			werr = fsutil.WalkDir(ctx, root, nil, rec.dirFn)
		case 2:
			werr = fsutil.WalkDir(ctx, root, &fsutil.FilterOpt{}, rec.dirFn)
		default:
			werr = fsutil.Walk(ctx, root, nil, rec.walkFn)
		}
		return L(L(rec.cbs...), errCode(werr))
	default:
		f, err := fsutil.NewFS(root)
		if err != nil {
			f = nil
		}
		return L(c09Steps(f, req.L[2], 1)...)
	}
}

// c09RunReq runs the request in this process (jail == "") or in a child process of the harness that
// chroots into jail and chdirs to "/" first (request on stdin, result on stdout: nothing is written
// into the jail).
func c09RunReq(jail string, req Sx) (Sx, error) {
	if jail == "" {
		return c09DoReq(req), nil
	}
	exe, err := os.Executable()
	if err != nil {
		return Sx{}, err
	}
	ctx, cancel := context.WithTimeout(context.Background(), 9*time.Second)
	defer cancel()
	cmd := exec.CommandContext(ctx, exe, "internal", "c09-child", jail)
	cmd.Stdin = strings.NewReader(req.String())
	var stdout, stderr bytes.Buffer
	cmd.Stdout, cmd.Stderr = &stdout, &stderr
	if err := cmd.Run(); err != nil {
		return Sx{}, fmt.Errorf("chroot child: %v: %s", err, stderr.String())
	}
	return ParseSx(stdout.String())
}

func init() {
	internals["c09-child"] = func(args []string) {
		if err := unix.Chroot(args[0]); err != nil {
			fmt.Fprintln(os.Stderr, "chroot:", err)
			os.Exit(3)
		}
		if err := os.Chdir("/"); err != nil {
			fmt.Fprintln(os.Stderr, "chdir:", err)
			os.Exit(3)
		}
		data, err := io.ReadAll(os.Stdin)
		if err != nil {
			os.Exit(4)
		}
		req, err := ParseSx(string(data))
		if err != nil {
			fmt.Fprintln(os.Stderr, "parse:", err)
			os.Exit(4)
		}
		var out Sx
		func() {
			defer func() {
				if r := recover(); r != nil {
					out = L(N(0xffff), S(fmt.Sprint(r)))
				}
			}()
			out = c09DoReq(req)
		}()
		os.Stdout.WriteString(out.String())
	}
}

// ---------------------------------------------------------------- generator

// names around a base x: x and x<c>y with c below and above '/', so that the bytewise
// order of full paths and the protocol order differ (x/… sorts before x<c>… for every c)
func c09Names(r *Rng) []string {
	bases := []string{"a", "ab", "x y", "é", "a.", "-", strings.Repeat("L", 253), strings.Repeat("w ", 100)}
	x := Pick(r, bases)
	seps := []string{"\x01", " ", "!", "#", "+", ",", "-", ".", "0", ":", "A", "a", "~", "\x7f", "\x80", "\xff"}
	names := []string{x}
	for _, c := range seps {
		if len(x)+1 <= 255 {
			names = append(names, x+c)
		}
		if len(x)+2 <= 255 && r.Chance(50) {
			names = append(names, x+c+Pick(r, []string{"b", "z", "0", "-"}))
		}
	}
	// a few unrelated ones, among them exactly 255 bytes
	names = append(names, "b", "c", ".a", "...", strings.Repeat("n", 255), strings.Repeat("é", 127), "日本", "\x01")
	return names
}

func c09File(name string, content string) *MNode {
	return &MNode{Name: name, Content: []byte(content), Stat: &types.Stat{Mode: 0644, Size: int64(len(content)), ModTime: 1700000000000000001}}
}
func c09Dir(name string, kids ...*MNode) *MNode {
	n := &MNode{Name: name, Kids: kids, Stat: &types.Stat{Mode: uint32(os.ModeDir | 0755), ModTime: 1700000000000000002}}
	sortKids(n)
	return n
}
func c09Sym(name, target string) *MNode {
	return &MNode{Name: name, Stat: &types.Stat{Mode: uint32(os.ModeSymlink | 0777), Linkname: target, Size: int64(len(target)), ModTime: 1700000000000000003}}
}
func c09Special(name string, mode os.FileMode, major, minor int64) *MNode {
	return &MNode{Name: name, Stat: &types.Stat{Mode: uint32(mode), Devmajor: major, Devminor: minor, ModTime: 1700000000000000004}}
}

func c09AddKid(kids []*MNode, n *MNode) []*MNode {
	for _, k := range kids {
		if k.Name == n.Name {
			return kids
		}
	}
	kids = append(kids, n)
	sort.Slice(kids, func(a, b int) bool { return kids[a].Name < kids[b].Name })
	return kids
}

// c09Inject adds, in a random directory, a directory x with a child and siblings x<c>... with c
// below and above '/' (the order distinction the property is about).
func c09Inject(r *Rng, view []*MNode) []*MNode {
	x := Pick(r, []string{"a", "x", "é", "a.", "q q", strings.Repeat("k", 250)})
	lo := Pick(r, []string{"\x01", " ", "!", "-", ".", ","})
	hi := Pick(r, []string{"0", "A", "a", "~", "\x80", "\xff"})
	cluster := []*MNode{
		c09Dir(x, c09File(Pick(r, []string{"x", "0", "-", "\x01"}), "c")),
		c09File(x+lo, "lo"),
		c09File(x+hi, "hi"),
	}
	if r.Chance(50) {
		cluster = append(cluster, c09Dir(x+lo+"d", c09File("y", "")))
	}
	var dirs []*MNode
	for _, f := range c09Flatten(view) {
		if f.n.IsDir() {
			dirs = append(dirs, f.n)
		}
	}
	if len(dirs) > 0 && r.Chance(60) {
		d := Pick(r, dirs)
		for _, c := range cluster {
			d.Kids = c09AddKid(d.Kids, c)
		}
		return view
	}
	for _, c := range cluster {
		view = c09AddKid(view, c)
	}
	return view
}

// c09Chain adds a chain of directories 8..14 deep ending in a file.
func c09Chain(r *Rng, view []*MNode) []*MNode {
	depth := 8 + r.Intn(7)
	var cur *MNode = c09File("leaf", "deep")
	for i := 0; i < depth; i++ {
		cur = c09Dir(Pick(r, []string{"d", "d-", "d d", "\x01", "é"}), cur, c09File("d-"+string(rune('a'+i)), ""))
	}
	return c09AddKid(view, cur)
}

type c09flat struct {
	n    *MNode
	path string
	dir  *MNode // parent (nil = root)
}

func c09Flatten(view []*MNode) []c09flat {
	var out []c09flat
	var rec func(dir string, parent *MNode, kids []*MNode)
	rec = func(dir string, parent *MNode, kids []*MNode) {
		for _, k := range kids {
			p := k.Name
			if dir != "" {
				p = dir + "/" + k.Name
			}
			out = append(out, c09flat{k, p, parent})
			rec(p, k, k.Kids)
		}
	}
	rec("", nil, view)
	return out
}

// c09View generates one view + extra links, with the distinctions C09 is about.
func c09View(r *Rng, big bool) ([]*MNode, Sx, string) {
	o := TreeOpts{MaxEntries: 14, MaxDepth: 5, Types: true, HardLinks: true, Xattrs: true, Owners: true, LongNames: true}
	if big {
		o.MaxEntries = 60
		o.MaxDepth = 6
	}
	cls := "pool"
	if r.Chance(65) {
		o.Names = c09Names(r)
		cls = "near"
	}
	if r.Chance(15) {
		o.MaxDepth = 1 + r.Intn(2)
	}
	view := GenView(r, o)
	if r.Chance(70) {
		view = c09Inject(r, view)
		cls += "+cl"
	}
	if r.Chance(8) {
		view = c09Chain(r, view)
		cls += "+deep"
	}
	flat := c09Flatten(view)
	for _, f := range flat {
		st := f.n.Stat
		m := os.FileMode(st.Mode)
		// user.* xattrs are refused by the kernel on special files and symlinks: trusted.* works (root)
		if m&(os.ModeNamedPipe|os.ModeDevice|os.ModeSocket|os.ModeSymlink) != 0 && r.Chance(15) {
			st.Xattrs = map[string][]byte{"trusted.s": fillContent(r, r.Intn(4))}
			if r.Chance(30) {
				st.Xattrs["trusted.a"] = []byte{}
			}
		}
		if m&os.ModeNamedPipe != 0 && r.Chance(40) {
			st.Mode = uint32(os.ModeSocket) | (st.Mode & 0777)
		}
		if m&os.ModeDevice != 0 && r.Chance(30) {
			// minors use all 20 bits (>= 65536: bits 16..19 live in dev_t bits 28..31); majors up to 4095
			// and beyond (the kernel's mknod keeps 12 bits; the expectation is computed from the st_rdev
			// the snapshot reads back, so any value is a valid recipe)
			st.Devmajor = int64(Pick(r, []int{0, 255, 256, 4095, 511, 2048, 4096, 70000}))
			st.Devminor = int64(Pick(r, []int{0, 255, 256, 65535, 65536, 65541, 983040, 1048575, 257, 69632 + r.Intn(900000)}))
		}
		if r.Chance(6) && st.Linkname == "" {
			st.ModTime = Pick(r, []int64{0, 1, -1, -1500000000*1e9 + 7, 4000000000 * 1e9, 999999999})
		}
		if m&os.ModeSymlink != 0 && r.Chance(30) {
			st.Linkname = Pick(r, []string{"/x/../y", "/a/", "//a", "rel/./x", "/..", "é/\x80", strings.Repeat("t", 300)})
			st.Size = int64(len(st.Linkname))
		}
	}
	// extra hard links to non-directories of any type, in random directories, under fresh names
	var extras []Sx
	if r.Chance(45) {
		var dirs []c09flat
		var leaves []c09flat
		for _, f := range flat {
			if f.n.IsDir() {
				dirs = append(dirs, f)
			} else if !(os.FileMode(f.n.Stat.Mode).IsRegular() && f.n.Stat.Linkname != "") {
				leaves = append(leaves, f)
			}
		}
		used := map[string]bool{}
		for _, f := range flat {
			used[f.path] = true
		}
		if len(leaves) > 0 {
			for k := 1 + r.Intn(3); k > 0; k-- {
				src := Pick(r, leaves)
				dstDir := ""
				if len(dirs) > 0 && r.Chance(70) {
					dstDir = Pick(r, dirs).path + "/"
				}
				name := Pick(r, []string{"!hl", "hl", "zz-hl", "\x01hl", "~hl", src.n.Name + "-l", src.n.Name + " l"})
				if len(name) > 255 {
					name = "hl"
				}
				dst := dstDir + name
				if used[dst] {
					continue
				}
				used[dst] = true
				extras = append(extras, L(S(src.path), S(dst)))
				cls += "+xl"
			}
		}
	}
	return view, L(extras...), cls
}

type c09case struct {
	kind uint64
	in   Sx
	note string
}

func c09Classic() []*MNode {
	x := c09File("x", "data")
	hl := c09File("a-b", "data")
	hl.Stat = x.Stat.CloneVT()
	hl.Stat.Linkname = "a/x"
	return []*MNode{c09Dir("a", x, c09Sym("y", "/t")), c09File("a b", "1"), hl, c09File("a.b", ""), c09File("a0", "22"), c09Dir("a!")}
}

// c09Directed: hand-written cases aimed at the distinctions of the property (also dumped to corpus/C09).
func c09Directed() []c09case {
	var out []c09case
	add := func(kind uint64, in Sx, note string) { out = append(out, c09case{kind, in, note}) }
	classic := ViewSx(c09Classic())
	for api := 0; api < 4; api++ {
		add(0x0901, L(classic, L(), S(""), NI(api)), fmt.Sprintf("a, a/x, a/y, a!, 'a b', a-b (hard link to a/x), a.b, a0 through entry point %d", api))
	}
	add(0x0901, L(L(), L(), S(""), NI(0)), "empty root")
	add(0x0901, L(L(), L(), S(""), NI(1)), "empty root, WalkDir")
	for _, t := range []string{"a", "a/x", "a-b", "./a/", "/a", "missing", "a/x/y", "a/missing", "nx/../a b"} {
		add(0x0901, L(classic, L(), S(t), NI(0)), "sub-target "+t+" (a-b alone: its first link is outside the walked set)")
	}
	// inode group {a/x, a/z, a-b} against sub-targets: seenFiles is per Walk call, so only the members at or
	// below the target count (target a: a/x file, a/z link to a/x; targets a-b and a/z alone: plain files)
	for _, t := range []string{"", "a", "a-b", "a/z", "a/x"} {
		add(0x0901, L(classic, L(L(S("a/x"), S("a/z"))), S(t), NI(0)), "three names of one inode, target '"+t+"': the group is cut at the target")
	}
	special := []*MNode{
		c09Dir("d", c09File("f", "x")),
		c09Special("p", os.ModeNamedPipe|0640, 0, 0),
		c09Special("s", os.ModeSocket|0755, 0, 0),
		c09Special("c", os.ModeDevice|os.ModeCharDevice|0600, 4095, 1048575),
		c09Special("b", os.ModeDevice|0660, 7, 256),
		c09Special("cs", os.ModeDevice|os.ModeCharDevice|os.ModeSetuid|os.ModeSetgid|0600, 1, 3),
		c09Sym("l", "p"),
	}
	extras := L(L(S("p"), S("d/p2")), L(S("l"), S("!l2")), L(S("c"), S("d/c2")), L(S("s"), S("zs")), L(S("d/f"), S("!f")))
	add(0x0901, L(ViewSx(special), extras, S(""), NI(0)), "fifo/socket/devices/symlink each with a second hard link; d/f first created, !f first in walk order")
	add(0x0901, L(ViewSx(special), extras, S("d"), NI(0)), "same, sub-target d")
	n255 := strings.Repeat("n", 255)
	n254 := strings.Repeat("n", 254)
	long := []*MNode{c09Dir(n255, c09Dir(n255, c09File(n255, "z"))), c09File(n254, ""), c09File(n254+"-", ""), c09File(n254+"\x01", ""), c09File(n254+"~", "")}
	add(0x0901, L(ViewSx(long), L(), S(""), NI(0)), "255-byte names, nested, with 254+c siblings")
	add(0x0901, L(ViewSx(long), L(), S(n255+"/"+n255), NI(0)), "255-byte names, sub-target")
	bits := []*MNode{c09Dir("t"), c09File("u", ""), c09File("g", ""), c09File("z", "")}
	bits[0].Stat.Mode = uint32(os.ModeDir | os.ModeSticky | 0777)
	bits[1].Stat.Mode = uint32(os.ModeSetuid | 0755)
	bits[2].Stat.Mode = uint32(os.ModeSetgid | 0711)
	bits[3].Stat.Mode = 0
	bits[1].Stat.Uid, bits[1].Stat.Gid = 65534, 1000
	bits[3].Stat.ModTime = -1
	bits[2].Stat.Xattrs = map[string][]byte{"user.a": []byte("1"), "user.b": {}, "trusted.c": {0, 255}}
	add(0x0901, L(ViewSx(bits), L(), S(""), NI(3)), "sticky dir, setuid/setgid files, mode 0, owner, negative mtime, xattrs")
	// how the root is named: every form through NewFS.Walk (whole tree and a sub-target) and through one
	// of the package-level entry points; the expected callbacks never depend on the form
	for f := 0; f < c09RootForms; f++ {
		add(0x0901, L(classic, L(), S(""), NI(0), NI(f)), "root named as "+c09RootFormNames[f]+", NewFS.Walk")
		add(0x0901, L(classic, L(), S("a"), NI(0), NI(f)), "root named as "+c09RootFormNames[f]+", sub-target a")
		add(0x0901, L(classic, L(), S(""), NI(1+f%3), NI(f)), fmt.Sprintf("root named as %s, entry point %d", c09RootFormNames[f], 1+f%3))
	}
	dst := func(name string) Sx {
		return StatSx(&types.Stat{Path: name, Mode: uint32(os.ModeDir | 0755), ModTime: 1700000000000000009, Uid: 1})
	}
	abs := append(c09Classic(), c09Sym("abs", "/a/../x/"), c09Sym("rel", "../x"), c09Sym("root", "/"))
	sortKidsList(abs)
	add(0x0902, L(L(L(dst("s"), classic, L()), L(dst("r"), ViewSx(abs), L())), S("")), "two sub-roots, r before s; hard-link and absolute symlink names prefixed")
	add(0x0902, L(L(L(dst("a-b"), classic, L()), L(dst("a"), classic, L()), L(dst("a b"), L(), L())), S("")), "sub-roots a, 'a b', a-b: a/... before 'a b'")
	add(0x0902, L(L(L(dst("s"), classic, L()), L(dst("r"), ViewSx(abs), L())), S("r/a")), "composite, target r/a")
	add(0x0902, L(L(L(dst("s"), classic, L()), L(dst("s"), classic, L())), S("")), "duplicate sub-root name")
	add(0x0902, L(L(L(dst("s"), classic, L()), L(dst("t"), classic, L(L(S("../../s0/r/a/x"), S("zz")), L(S("../../s0/r/a b"), S("a/!k"))))), S("")),
		"files of sub-root s hard-linked into sub-root t: every sub-root has its own inode map, t/zz and t/a/!k are plain files, link names never cross sub-roots")
	add(0x0902, L(L(L(dst("s"), classic, L(), NI(c09RootSymRel)), L(dst("r"), ViewSx(abs), L(), NI(c09RootSymDotDot)), L(dst("q"), classic, L(), NI(c09RootMidSymAbs))), S("")),
		"sub-roots given as a symlink, as sl/../r (.. after a symlink) and through a symlinked parent")
	add(0x0902, L(L(L(dst("s/t"), classic, L())), S("")), "sub-root name with separator")
	// sub-root names where one is a proper string prefix of the other, sub-targets inside the longer one:
	// the sub-root is selected by the whole first component
	for _, t := range []string{"lib64", "lib64/a", "lib64/a/x", "lib", "lib/a-b", "lib6", "li", "lib64/missing", "lib64/", "/lib", "lib641"} {
		add(0x0902, L(L(L(dst("lib"), classic, L()), L(dst("lib64"), ViewSx(abs), L()), L(dst("lib32"), L(), L())), S(t)), "sub-roots lib, lib32, lib64; target "+t)
	}
	add(0x0902, L(L(L(dst("a-b"), classic, L()), L(dst("a"), classic, L())), S("a-b/a")), "sub-roots a, a-b; target a-b/a")
	// walk history on one FS value: every walk stands alone (the inode map is per Walk call)
	hl := L(L(S("a/x"), S("a/z")))
	fl := L(S("a/y"), S("a-b"))
	for _, steps := range []Sx{L(S(""), S("")), L(S("a"), S("")), L(S("a-b"), S(""), S("a")), L(S("a/z"), S("a"), S("")),
		L(fl, S("")), L(S("a"), fl, S("a")), L(S("missing"), S(""), S(""))} {
		add(0x0904, L(classic, hl, NI(c09RootReal), steps), "one NewFS value, steps "+steps.String())
	}
	add(0x0904, L(classic, hl, NI(c09RootSymRel), L(S("a"), S(""))), "one NewFS value named through a symlink, sub-target then root")
	for _, steps := range []Sx{L(S(""), S("")), L(S("s/a"), S("")), L(S("r"), S("s"), S(""))} {
		add(0x0905, L(L(L(dst("s"), classic, hl), L(dst("r"), ViewSx(abs), L())), steps), "one SubDirFS value, steps "+steps.String())
	}
	return out
}

func sortKidsList(l []*MNode) {
	sort.Slice(l, func(a, b int) bool { return l[a].Name < l[b].Name })
}

func init() {
	internals["c09corpus"] = func(args []string) {
		fmt.Println("// C09 directed cases (generated by `vh internal c09corpus`; also run first by the generator)")
		for _, c := range c09Directed() {
			fmt.Printf("// %s\n%x\t%s\n", c.note, c.kind, c.in.String())
		}
	}
	internals["c09witness"] = func(args []string) {
		g := c09File("g", "data-m?")
		f := c09File("f", "data-m?")
		g.Stat = f.Stat.CloneVT()
		g.Stat.Linkname = "f"
		v := ViewSx([]*MNode{f, g})
		fmt.Printf("%x\t%s\n", 0x0903, L(v, v, S("")).String())
		h := c09File("h", "other")
		fmt.Printf("%x\t%s\n", 0x0903, L(v, ViewSx([]*MNode{h}), S("")).String())
	}
}

func c09Nontrivial(view []*MNode) bool {
	ndirs := 0
	pair := false
	var rec func(kids []*MNode)
	rec = func(kids []*MNode) {
		for i, k := range kids {
			if k.IsDir() {
				ndirs++
				rec(k.Kids)
			}
			for j, o := range kids {
				if i != j && len(o.Name) > len(k.Name) && strings.HasPrefix(o.Name, k.Name) && o.Name[len(k.Name)] < '/' {
					pair = true
				}
			}
		}
	}
	rec(view)
	return ndirs >= 2 && pair
}

func c09Target(r *Rng, view []*MNode) (string, string) {
	flat := c09Flatten(view)
	switch k := r.Intn(100); {
	case k < 25 || len(flat) == 0:
		return Pick(r, []string{"", "", "/", ".", "./", "//"}), "root"
	case k < 70:
		// an existing entry, directories preferred
		f := Pick(r, flat)
		for i := 0; i < 3 && !f.n.IsDir(); i++ {
			f = Pick(r, flat)
		}
		cls := "sub-leaf"
		if f.n.IsDir() {
			cls = "sub-dir"
		}
		switch r.Intn(6) {
		case 0:
			return "./" + f.path, cls
		case 1:
			return f.path + "/", cls
		case 2:
			return "nx/../" + f.path, cls
		case 3:
			return "/" + f.path, cls
		}
		return f.path, cls
	case k < 85:
		// missing name inside an existing directory (ENOENT)
		var dirs []string
		for _, f := range flat {
			if f.n.IsDir() {
				dirs = append(dirs, f.path+"/")
			}
		}
		dirs = append(dirs, "")
		return Pick(r, dirs) + "missing", "missing"
	default:
		// below a regular file (ENOTDIR)
		for i := 0; i < 5; i++ {
			f := Pick(r, flat)
			if os.FileMode(f.n.Stat.Mode).IsRegular() {
				return f.path + "/x", "notdir"
			}
		}
		return "missing/deeper", "missing"
	}
}

func genC09(g *Gen) {
	r := g.Rng
	for _, c := range c09Directed() {
		g.Emit(c.kind, c.in, true, "directed")
	}
	// (a) whole-tree walks through the four entry points, and sub-target walks
	n := g.Vol(300, 5000)
	for i := 0; i < n; i++ {
		view, extras, cls := c09View(r, i%10 == 9)
		api := 0
		target := ""
		tcls := "root"
		switch k := r.Intn(100); {
		case k < 30:
			api = 0
		case k < 60:
			api = 0
			target, tcls = c09Target(r, view)
		case k < 75:
			api = 1
		case k < 88:
			api = 2
		default:
			api = 3
		}
		rf := c09PickRootForm(r)
		in := L(ViewSx(view), extras, S(target), NI(api), NI(rf))
		g.Emit(0x0901, in, c09Nontrivial(view), fmt.Sprintf("walk-api%d-%s-%s-root:%s", api, tcls, cls, c09RootFormNames[rf]))
	}
	// (b) SubDirFS, whole walks and sub-targets
	m := g.Vol(120, 2000)
	for i := 0; i < m; i++ {
		c := c09GenComposite(r)
		target, tcls := c09CompositeTarget(r, c, 70)
		g.Emit(0x0902, L(L(c.sds...), S(target)), c.nontriv, c.cls+tcls+c.rooted)
	}
	// (c) walk history on ONE NewFS value: 2..4 steps (root, sub-targets, root again, FollowLinks in
	// between) over trees with hard-link groups; every walk is judged on its own
	h := g.Vol(120, 2500)
	for i := 0; i < h; i++ {
		var view []*MNode
		var extras Sx
		var cls string
		for try := 0; try < 4; try++ {
			view, extras, cls = c09View(r, i%10 == 9)
			if len(extras.L) > 0 {
				break
			}
		}
		flat := c09Flatten(view)
		var steps []Sx
		hcls := ""
		nwalks := 2 + r.Intn(2)
		for w := 0; w < nwalks; w++ {
			if r.Chance(25) && len(flat) > 0 {
				var paths []Sx
				for q := 1 + r.Intn(3); q > 0; q-- {
					paths = append(paths, S(Pick(r, flat).path))
				}
				steps = append(steps, L(paths...))
				hcls += "F"
			}
			if r.Chance(45) {
				steps = append(steps, S(Pick(r, []string{"", "", "/", "."})))
				hcls += "R"
			} else {
				t, _ := c09Target(r, view)
				steps = append(steps, S(t))
				hcls += "T"
			}
		}
		rf := c09PickRootForm(r)
		g.Emit(0x0904, L(ViewSx(view), extras, NI(rf), L(steps...)), c09Nontrivial(view) && len(extras.L) > 0,
			fmt.Sprintf("history-%s-%s", hcls, cls))
	}
	// (d) walk history on ONE SubDirFS value
	hs := g.Vol(40, 800)
	for i := 0; i < hs; i++ {
		c := c09GenComposite(r)
		var steps []Sx
		hcls := ""
		for w := 2 + r.Intn(2); w > 0; w-- {
			t, tc := c09CompositeTarget(r, c, 40)
			steps = append(steps, S(t))
			hcls += tc
		}
		g.Emit(0x0905, L(L(c.sds...), L(steps...)), c.nontriv, "history-"+c.cls+hcls+c.rooted)
	}
}

type c09composite struct {
	sds     []Sx
	names   []string // as given (unsorted, possibly with duplicates / bad names)
	views   map[string][]*MNode
	nontriv bool
	cls     string
	rooted  string
	long    string // the longer name of a prefix pair, if the sub-root names contain one
}

// c09GenComposite: 1..3 sub-roots.  A third of the cases have a pair of names where one is a proper
// STRING prefix of the other (lib / lib64, a / a-b, 1 / 10, 254 x s / 255 x s): selecting the sub-root of a
// sub-target must compare whole components.
func c09GenComposite(r *Rng) *c09composite {
	c := &c09composite{views: map[string][]*MNode{}, cls: "subdirs"}
	k := 1 + r.Intn(3)
	pool := []string{"a", "a-b", "a b", "a.b", "b", "é", "a0", "sub", "lib", "lib64", "1", "10", strings.Repeat("s", 255)}
	var forced []string
	if r.Chance(35) {
		pairs := [][2]string{{"lib", "lib64"}, {"a", "a-b"}, {"a", "a b"}, {"1", "10"}, {"é", "é!"}, {"a", "a0"}, {"a", "aa"},
			{strings.Repeat("s", 254), strings.Repeat("s", 255)}, {"x", "x\x01"}, {"x", "x\xff"}}
		p := Pick(r, pairs)
		forced = []string{p[0], p[1]}
		if r.Chance(50) {
			forced = []string{p[1], p[0]}
		}
		if k < 2 {
			k = 2
		}
		c.long = p[1]
		c.cls = "subdirs-prefixpair"
	}
	for j := 0; j < k; j++ {
		name := Pick(r, pool)
		if j < len(forced) {
			name = forced[j]
		} else if r.Chance(6) {
			name = Pick(r, []string{"a/b", "", ".", "..", "/", "a/"})
			c.cls = "subdirs-badname"
		}
		c.names = append(c.names, name)
		st := &types.Stat{Path: name, Mode: uint32(os.ModeDir) | uint32(Pick(r, []int{0755, 0700, 0711})),
			Uid: uint32(Pick(r, []int{0, 1000})), Gid: uint32(Pick(r, []int{0, 5})),
			ModTime: int64(1600000000+r.Intn(1000))*1e9 + int64(r.Intn(1e9))}
		if r.Chance(20) {
			st.Xattrs = map[string][]byte{"user.d": []byte("x")}
		}
		if r.Chance(4) {
			st.Mode = 0644
			c.cls = "subdirs-notdir"
		}
		view, extras, _ := c09View(r, false)
		// absolute symlink targets are what the re-rooting is about
		for _, f := range c09Flatten(view) {
			if os.FileMode(f.n.Stat.Mode)&os.ModeSymlink != 0 && r.Chance(50) {
				f.n.Stat.Linkname = Pick(r, []string{"/", "/a", "/a/b/", "/a/../b", "//x", "/.", "/é"})
				f.n.Stat.Size = int64(len(f.n.Stat.Linkname))
			}
		}
		if c09Nontrivial(view) {
			c.nontriv = true
		}
		if _, ok := c.views[name]; !ok {
			c.views[name] = view
		}
		rf := c09RootReal
		if r.Chance(35) {
			rf = c09PickRootFormNoJail(r)
		}
		if rf != c09RootReal {
			c.rooted = "-rooted"
		}
		c.sds = append(c.sds, L(StatSx(st), ViewSx(view), extras, NI(rf)))
	}
	sorted := append([]string{}, c.names...)
	sort.Strings(sorted)
	for j := 1; j < len(sorted); j++ {
		if sorted[j] == sorted[j-1] {
			c.cls = "subdirs-dup"
		}
	}
	return c
}

// c09CompositeTarget: "" (whole walk) with probability whole%, otherwise a sub-target: a sub-root name, an
// entry inside a sub-root, a missing entry, a name that is only a string prefix / extension of a sub-root
// name, an unknown name, a leading or trailing separator.  With a prefix pair the longer name is preferred.
func c09CompositeTarget(r *Rng, c *c09composite, whole int) (string, string) {
	if r.Chance(whole) {
		return Pick(r, []string{"", "", "", "/"}), "-w"
	}
	// only proper single-component names take part in targets: a target that climbs above a root
	// ("..") is outside the model (props: assumptions)
	var proper []string
	for _, n := range c.names {
		if n != "" && n != "." && n != ".." && !strings.Contains(n, "/") {
			proper = append(proper, n)
		}
	}
	if len(proper) == 0 {
		return "nosuchsub", "-tx"
	}
	name := Pick(r, proper)
	if c.long != "" && r.Chance(70) {
		name = c.long
	}
	switch t := r.Intn(100); {
	case t < 30:
		return name, "-t1"
	case t < 70:
		// an existing entry of that sub-root (never through a symlink), or a missing one
		sub := "missing"
		if fl := c09Flatten(c.views[name]); len(fl) > 0 && r.Chance(80) {
			f := Pick(r, fl)
			for i := 0; i < 2 && !f.n.IsDir(); i++ {
				f = Pick(r, fl)
			}
			sub = f.path
		}
		return name + "/" + sub + Pick(r, []string{"", "", "", "/"}), "-t2"
	case t < 80:
		// neither a sub-root nor nothing: one byte more or less than a sub-root name
		if len(name) > 1 && r.Chance(50) {
			return name[:len(name)-1] + Pick(r, []string{"", "/x"}), "-tp"
		}
		return name + Pick(r, []string{"6", "-", "\x01", "0/x"}), "-tp"
	case t < 90:
		// first component empty: every sub-root is walked at the remainder
		sub := "missing"
		if fl := c09Flatten(c.views[name]); len(fl) > 0 {
			sub = Pick(r, fl).path
		}
		return "/" + Pick(r, []string{name, sub}), "-ts"
	default:
		return "nosuchsub", "-tx"
	}
}
