package main

import (
	"context"
	"fmt"
	"io"
	gofs "io/fs"
	"os"
	"path/filepath"
	"sort"
	"strings"
	"time"

	"github.com/moby/patternmatcher"
	"github.com/tonistiigi/fsutil"
	"github.com/tonistiigi/fsutil/types"
)

func init() {
	kinds[0x1001] = run1001
	kinds[0x1002] = run1002
	kinds[0x1003] = run1003
	kinds[0x1004] = run1004
	kinds[0x1005] = run1005
	props["C10"] = genC10
}

// text/scanner (used by patternmatcher's compile) prints "invalid UTF-8 encoding" / "invalid
// character NUL" to os.Stderr; keep the harness output clean.
func quietStderr() func() {
	old := os.Stderr
	if f, err := os.OpenFile(os.DevNull, os.O_WRONLY, 0); err == nil {
		os.Stderr = f
		return func() { os.Stderr = old; f.Close() }
	}
	return func() {}
}

func sxStrings(x Sx) []string {
	out := make([]string, 0, len(x.L))
	for _, s := range x.L {
		out = append(out, s.Str())
	}
	return out
}

func stringsSx(ss []string) Sx {
	out := make([]Sx, len(ss))
	for i, s := range ss {
		out[i] = S(s)
	}
	return L(out...)
}

// one real Pattern (as New builds it from the raw string) and its real match function.
// Pattern.match is unexported; for a single-pattern matcher the (deprecated, skip-free for one
// pattern) MatchesUsingParentResult(file, parentMatched) evaluates exactly pattern.match(file):
//   inclusion: start false, evaluated because exclusion(false) == matched(false), result = match
//   exclusion: start true,  evaluated because exclusion(true)  == matched(true),  result = !match
type realPat struct {
	excl  bool
	str   string
	match func(q string) bool
}

func realPattern(raw string) (*realPat, bool, error) {
	pm, err := patternmatcher.New([]string{raw})
	if err != nil {
		return nil, false, err
	}
	if len(pm.Patterns()) == 0 {
		return nil, false, nil
	}
	p := pm.Patterns()[0]
	rp := &realPat{excl: p.Exclusion(), str: p.String()}
	rp.match = func(q string) bool {
		r, err := pm.MatchesUsingParentResult(q, rp.excl)
		if err != nil {
			panic("match error: " + err.Error())
		}
		return r != rp.excl
	}
	return rp, true, nil
}

func patsSx(raws []string) (Sx, error) {
	if len(raws) == 0 {
		return L(), nil
	}
	pm, err := patternmatcher.New(raws)
	if err != nil {
		return Sx{}, err
	}
	var ps []Sx
	for _, p := range pm.Patterns() {
		ps = append(ps, L(Bool(p.Exclusion()), S(p.String())))
	}
	return L(L(ps...)), nil
}

// every path and every prefix of it that ends before a separator
func withPrefixes(paths []string) []string {
	seen := map[string]bool{}
	var out []string
	add := func(s string) {
		if !seen[s] {
			seen[s] = true
			out = append(out, s)
		}
	}
	for _, p := range paths {
		for i := 0; i < len(p); i++ {
			if p[i] == '/' {
				add(p[:i])
			}
		}
		add(p)
	}
	return out
}

// table of real single-pattern match results: ((cleanedPattern path bool) ...)
func pmatchTable(raws []string, paths []string) []Sx {
	var out []Sx
	done := map[string]bool{}
	for _, raw := range raws {
		rp, ok, err := realPattern(raw)
		if err != nil || !ok || done[rp.str] {
			continue
		}
		done[rp.str] = true
		for _, q := range paths {
			out = append(out, L(S(rp.str), S(q), Bool(rp.match(q))))
		}
	}
	return out
}

func viewPaths(view []*MNode) []string {
	var out []string
	for _, st := range WalkEntries(view) {
		out = append(out, st.Path)
	}
	return out
}

type mapEnt struct{ res, rw int }

func mapFromTable(mt Sx) fsutil.MapFunc {
	if len(mt.L) == 0 {
		return nil
	}
	tbl := map[string]mapEnt{}
	for _, e := range mt.L {
		p := e.L[0].Str()
		if _, dup := tbl[p]; !dup {
			tbl[p] = mapEnt{e.L[1].Int(), e.L[2].Int()}
		}
	}
	return func(p string, st *types.Stat) fsutil.MapResult {
		e, ok := tbl[p]
		if !ok {
			return fsutil.MapResultKeep
		}
		switch e.rw {
		case 1:
			st.Uid, st.Gid = 0, 0
		case 2:
			st.ModTime = 0
		case 3:
			st.Mode &^= 0o22
		case 4:
			st.Xattrs = nil
		}
		switch e.res {
		case 1:
			return fsutil.MapResultExclude
		case 2:
			return fsutil.MapResultSkipDir
		}
		return fsutil.MapResultKeep
	}
}

func guardedC10(f func() Sx) (out Sx) {
	ch := make(chan Sx, 1)
	go func() {
		defer func() {
			if r := recover(); r != nil {
				ch <- L(N(0xfffe), S(fmt.Sprint(r)))
			}
		}()
		ch <- f()
	}()
	select {
	case o := <-ch:
		return o
	case <-time.After(10 * time.Second):
		return L(N(0xfffd))
	}
}

type walkInfo struct {
	visited  map[string]bool // paths the underlying FS reported to the filter
	reported []string
}

func realFilterWalk(view []*MNode, inc, exc []string, mt Sx, wi *walkInfo) Sx {
	m := &MemFS{Roots: view}
	if wi != nil {
		wi.visited = map[string]bool{}
		m.WalkHook = func(idx int, p string) error { wi.visited[p] = true; return nil }
	}
	f, err := fsutil.NewFilterFS(m, &fsutil.FilterOpt{IncludePatterns: inc, ExcludePatterns: exc, Map: mapFromTable(mt)})
	if err != nil {
		return L(N(0xffff))
	}
	var calls []Sx
	bad := false
	err = f.Walk(context.Background(), "/", func(p string, d gofs.DirEntry, err error) error {
		if err != nil {
			bad = true
			return err
		}
		fi, err := d.Info()
		if err != nil {
			bad = true
			return err
		}
		st := fi.Sys().(*types.Stat)
		if st.Path != p {
			bad = true
		}
		calls = append(calls, StatSx(st.CloneVT()))
		if wi != nil {
			wi.reported = append(wi.reported, p)
		}
		return nil
	})
	if err != nil || bad {
		return L(N(0xfffc), S(fmt.Sprint(err)))
	}
	is, err1 := patsSx(inc)
	es, err2 := patsSx(exc)
	if err1 != nil || err2 != nil {
		return L(N(0xfffb))
	}
	paths := withPrefixes(viewPaths(view))
	tbl := pmatchTable(append(append([]string{}, inc...), exc...), paths)
	return L(N(0), is, es, L(tbl...), L(calls...))
}

// kind 1005: a HISTORY of walks on ONE filterFS value (single goroutine, deterministic).
// input: (view include-raw exclude-raw maptable history), history = (walk ...), walk = (n0 n1 ...):
// a top-level walk; while it is running, when its callback is called for the n0-th time (0-based) a
// NESTED walk of the same FS value is started from inside the callback and run to completion before
// the callback returns; that walk nests again at its n1-th callback, and so on.
// output: (#ffff) | (#0 inc exc ptable (calls ...)) with one calls list per walk STARTED, in start order.
func run1005(in Sx) Sx {
	defer quietStderr()()
	return guardedC10(func() Sx {
		view := SxView(in.L[0])
		inc, exc, mt := sxStrings(in.L[1]), sxStrings(in.L[2]), in.L[3]
		f, err := fsutil.NewFilterFS(&MemFS{Roots: view}, &fsutil.FilterOpt{IncludePatterns: inc, ExcludePatterns: exc, Map: mapFromTable(mt)})
		if err != nil {
			return L(N(0xffff))
		}
		var walks [][]Sx
		bad := false
		var do func(nest []int)
		do = func(nest []int) {
			idx := len(walks)
			walks = append(walks, nil)
			n := 0
			err := f.Walk(context.Background(), "/", func(p string, d gofs.DirEntry, err error) error {
				if err != nil {
					bad = true
					return err
				}
				fi, err := d.Info()
				if err != nil {
					bad = true
					return err
				}
				st := fi.Sys().(*types.Stat)
				if st.Path != p {
					bad = true
				}
				walks[idx] = append(walks[idx], StatSx(st.CloneVT()))
				if len(nest) > 0 && n == nest[0] {
					do(nest[1:])
				}
				n++
				return nil
			})
			if err != nil {
				bad = true
			}
		}
		for _, w := range in.L[4].L {
			var nest []int
			for _, x := range w.L {
				nest = append(nest, x.Int())
			}
			do(nest)
		}
		if bad {
			return L(N(0xfffc))
		}
		is, err1 := patsSx(inc)
		es, err2 := patsSx(exc)
		if err1 != nil || err2 != nil {
			return L(N(0xfffb))
		}
		tbl := pmatchTable(append(append([]string{}, inc...), exc...), withPrefixes(viewPaths(view)))
		ws := make([]Sx, len(walks))
		for i, w := range walks {
			ws[i] = L(w...)
		}
		return L(N(0), is, es, L(tbl...), L(ws...))
	})
}

// real fsutil.NewFilterFS(MemFS(view), {include, exclude, map}).Walk(ctx, "/", fn)
func run1001(in Sx) Sx {
	defer quietStderr()()
	return guardedC10(func() Sx {
		return realFilterWalk(SxView(in.L[0]), sxStrings(in.L[1]), sxStrings(in.L[2]), in.L[3], nil)
	})
}

func relPrefixes(p string) []string {
	var out []string
	for i := 0; i < len(p); i++ {
		if p[i] == '/' {
			out = append(out, p[:i])
		}
	}
	return append(out, p)
}

// real MatchesOrParentMatches(path) and the MatchesUsingParentResults chain down the path
func run1002(in Sx) Sx {
	defer quietStderr()()
	return guardedC10(func() Sx {
		raws := sxStrings(in.L[0])
		path := in.L[1].Str()
		pm, err := patternmatcher.New(raws)
		if err != nil {
			return L(N(0xffff))
		}
		var ps []Sx
		for _, p := range pm.Patterns() {
			ps = append(ps, L(Bool(p.Exclusion()), S(p.String())))
		}
		naive, err := pm.MatchesOrParentMatches(path)
		if err != nil {
			return L(N(0xfffc))
		}
		var chain []Sx
		info := patternmatcher.MatchInfo{}
		for _, pre := range relPrefixes(path) {
			m, ni, err := pm.MatchesUsingParentResults(pre, info)
			if err != nil {
				return L(N(0xfffc))
			}
			info = ni
			chain = append(chain, Bool(m))
		}
		// the model's naive asks about the path, and about the prefixes of Dir(path)
		qs := withPrefixes([]string{path})
		if d := filepath.Dir(path); d != "." {
			parts := strings.Split(d, "/")
			for i := range parts {
				qs = append(qs, strings.Join(parts[:i+1], "/"))
			}
		}
		return L(N(0), L(ps...), L(pmatchTable(raws, withPrefixes(qs))...), Bool(naive), L(chain...))
	})
}

// the real single-pattern matcher on one (pattern, path) pair
func run1003(in Sx) Sx {
	defer quietStderr()()
	return guardedC10(func() Sx {
		rp, ok, err := realPattern(in.L[0].Str())
		if err != nil {
			return L(N(0xffff))
		}
		if !ok {
			return L(N(1))
		}
		return L(N(0), L(Bool(rp.excl), S(rp.str)), Bool(rp.match(in.L[1].Str())))
	})
}

type openFS struct{}

func (openFS) Walk(context.Context, string, gofs.WalkDirFunc) error { return nil }
func (openFS) Open(string) (io.ReadCloser, error)                   { return io.NopCloser(strings.NewReader("")), nil }

// real filterFS.Open over an FS whose Open always succeeds: allowed <=> no error
func run1004(in Sx) Sx {
	defer quietStderr()()
	return guardedC10(func() Sx {
		inc, exc, path := sxStrings(in.L[0]), sxStrings(in.L[1]), in.L[2].Str()
		f, err := fsutil.NewFilterFS(openFS{}, &fsutil.FilterOpt{IncludePatterns: inc, ExcludePatterns: exc})
		if err != nil {
			return L(N(0xffff))
		}
		rc, err := f.Open(path)
		if err == nil {
			rc.Close()
		}
		is, err1 := patsSx(inc)
		es, err2 := patsSx(exc)
		if err1 != nil || err2 != nil {
			return L(N(0xfffb))
		}
		qs := []string{path}
		if d := filepath.Dir(path); d != "." {
			parts := strings.Split(d, "/")
			for i := range parts {
				qs = append(qs, strings.Join(parts[:i+1], "/"))
			}
		}
		tbl := pmatchTable(append(append([]string{}, inc...), exc...), qs)
		return L(N(0), is, es, L(tbl...), Bool(err == nil))
	})
}

// ---------------------------------------------------------------- generator

var c10Names = []string{"a", "b", "ab", "c", "d", "x", "y", "a.b", "a b", "é", "b+", "ba", "a-b", "(a)", "a$"}
var c10UnsafeNames = []string{"a{2}", "aa", "a|b", "xb", "\x80", "\x81", "{a}"}

// c10MetaNames: entry names that contain pattern metacharacters literally; a pattern addresses them
// by backslash-escaping ("app/\[id\]/page"): such a pattern has NO unescaped wildcard, but it is not
// a byte prefix of the paths it matches, so it must not arm the prefix-only SkipDir shortcuts
var c10MetaNames = []string{"[id]", "a*", "b?", "x]", "a\\b", "[a", "^a", "*"}

// c10Escape: the pattern that matches exactly the path p: every metacharacter and backslash escaped
func c10Escape(p string) string {
	var b strings.Builder
	for i := 0; i < len(p); i++ {
		if strings.IndexByte("*?[]^\\", p[i]) >= 0 {
			b.WriteByte('\\')
		}
		b.WriteByte(p[i])
	}
	return b.String()
}

// c10EscapedList: a list WITHOUT any unescaped wildcard in the patterns the classification looks
// at, one of them with escaped metacharacters in directory components of a deep path:
// side 'i': include list = escaped deep path (optionally + one trailing glob) + plain literals;
// side 'e': exclude list = a covering literal + the escaped deep path as '!' exception.
func c10EscapedList(r *Rng, paths []string, classes map[string]int) (out []string, side byte) {
	var deep, plain []string
	for _, p := range paths {
		if strings.ContainsAny(p, "*?[]^\\") {
			if strings.Count(p, "/") >= 1 {
				deep = append(deep, p)
			}
		} else {
			plain = append(plain, p)
		}
	}
	if len(deep) == 0 {
		return nil, 'i'
	}
	sort.Slice(deep, func(a, b int) bool { return strings.Count(deep[a], "/") > strings.Count(deep[b], "/") })
	t := deep[r.Intn(1+len(deep)/2)] // prefer the deepest
	esc := c10Escape(t)
	if r.Chance(25) {
		esc += Pick(r, []string{"/*", "/**"})
	}
	side = "ie"[r.Intn(2)]
	if side == 'i' {
		out = append(out, esc)
		classes["escaped-literal"]++
	} else {
		cover := splitPath(t)[0]
		if r.Bool() {
			cover = c10Escape(cover)
		} else {
			cover = Pick(r, []string{"*", "**"})
		}
		out = append(out, cover, "!"+esc)
		classes["!escaped-literal"]++
	}
	for n := r.Intn(3); n > 0 && len(plain) > 0; n-- {
		q := Pick(r, plain)
		if side == 'e' {
			q = "!" + q
		}
		if r.Bool() {
			out = append(out, q)
		} else {
			out = append([]string{q}, out...)
		}
	}
	for _, q := range out {
		if !validPattern(q) {
			return nil, side
		}
	}
	return out, side
}

// bushy, deep views over few names: every shortcut and the lazy emission of parents have
// something to do
func c10DeepView(r *Rng, names []string) []*MNode {
	budget := 5 + r.Intn(12)
	var build func(depth int) []*MNode
	build = func(depth int) []*MNode {
		var kids []*MNode
		n := 1 + r.Intn(3)
		used := map[string]bool{}
		for i := 0; i < n && budget > 0; i++ {
			name := Pick(r, names)
			if used[name] {
				continue
			}
			used[name] = true
			budget--
			st := &types.Stat{Mode: uint32(Pick(r, []int{0644, 0600, 0755})), Uid: uint32(Pick(r, []int{0, 1000})), Gid: uint32(Pick(r, []int{0, 5})),
				ModTime: int64(1600000000+r.Intn(1000))*1e9 + int64(r.Intn(1e9))}
			node := &MNode{Name: name, Stat: st}
			pdir := 65
			if depth >= 2 {
				pdir = 40
			}
			if depth < 4 && r.Chance(pdir) {
				st.Mode = uint32(os.ModeDir | 0755)
				node.Kids = build(depth + 1)
			} else {
				node.Content = fillContent(r, Pick(r, sizesSmall))
				st.Size = int64(len(node.Content))
				if r.Chance(10) {
					st.Xattrs = map[string][]byte{"user.k": {1}}
				}
			}
			kids = append(kids, node)
		}
		return kids
	}
	root := &MNode{Name: "", Stat: &types.Stat{Mode: uint32(os.ModeDir | 0755)}, Kids: build(0)}
	sortKids(root)
	return root.Kids
}

func validPattern(p string) bool {
	_, err := patternmatcher.New([]string{p})
	return err == nil
}

func splitPath(p string) []string { return strings.Split(p, "/") }

// one pattern from the grammar, aimed at the paths of the view; returns the pattern and its class
// prefix-only pattern (literal, L/*, L/**) aimed at the paths of the view: keeps both SkipDir
// shortcuts armed
func genPrefixPattern(r *Rng, paths []string) (string, string) {
	base := "a"
	if len(paths) > 0 && r.Chance(92) {
		base = Pick(r, paths)
	} else {
		base = Pick(r, []string{"a", "a/b", "zz", "a/zz", "b/c/d", "ab"})
	}
	switch r.Intn(8) {
	case 0, 1, 2:
		return base, "literal"
	case 3:
		return base + "/*", "lit/*"
	case 4:
		return base + "/**", "lit/**"
	case 5:
		if d := filepath.Dir(base); d != "." {
			return d + "/*", "parent/*"
		}
		return base, "literal"
	case 6:
		if r.Bool() || len(base) < 2 {
			return base + Pick(r, []string{"b", "a", "x"}), "sibling-confusion"
		}
		return base[:len(base)-1], "sibling-confusion"
	}
	return splitPath(base)[0], "top-literal"
}

func genPattern(r *Rng, paths []string) (string, string) {
	for {
		base := "a"
		if len(paths) > 0 && r.Chance(92) {
			base = Pick(r, paths)
		} else {
			base = Pick(r, []string{"a", "a/b", "zz", "a/zz", "b/c/d"})
		}
		cs := splitPath(base)
		var p, cls string
		switch k := r.Intn(17); k {
		case 0, 1:
			p, cls = base, "literal"
		case 2:
			p, cls = base+"/*", "lit/*"
		case 3:
			p, cls = base+"/**", "lit/**"
		case 4:
			i := r.Intn(len(cs))
			cs[i] = "*"
			p, cls = strings.Join(cs, "/"), "star-component"
		case 5:
			i := r.Intn(len(cs))
			if len(cs[i]) > 0 && cs[i][0] < 0x80 {
				cs[i] = "?" + cs[i][1:]
			}
			p, cls = strings.Join(cs, "/"), "question"
		case 6:
			i := r.Intn(len(cs))
			cs[i] = Pick(r, []string{"[a-c]", "[a-c]*", "[^a]", "[x-y]"})
			p, cls = strings.Join(cs, "/"), "class"
		case 7:
			p, cls = "**/"+cs[len(cs)-1], "**/name"
		case 8:
			p, cls = Pick(r, []string{"*", "**", "*/*", "**/*"}), "bare-glob"
		case 9:
			p, cls = filepath.Dir(base)+"/*/**", "F10 d/*/**"
			if r.Bool() {
				p = base + "/*/**"
			}
		case 10:
			if r.Bool() || len(base) < 2 {
				p = base + Pick(r, []string{"b", "a", "x"})
			} else {
				p = base[:len(base)-1]
			}
			cls = "sibling-confusion"
		case 11:
			p, cls = cs[0], "top-literal"
		case 12:
			p, cls = base+Pick(r, []string{"/**/*", "/**/**", "/*/*"}), "double-trailing-glob"
		case 13:
			p, cls = cs[0][:1]+"*", "prefix-glob"
			if cs[0][0] >= 0x80 {
				p = "*"
			}
		case 14:
			p, cls = filepath.Dir(base)+"/*", "parent/*"
		case 15:
			p, cls = filepath.Dir(base)+"/**", "parent/**"
		case 16:
			i := r.Intn(len(cs))
			cs[i] = "**"
			p, cls = strings.Join(cs, "/"), "**-component"
		}
		if r.Chance(4) {
			p = Pick(r, []string{" ", "\t"}) + p + Pick(r, []string{" ", "", "\n"})
			cls += "+space"
		}
		if r.Chance(5) {
			switch r.Intn(5) {
			case 0:
				p = "./" + p
			case 1:
				p = strings.Replace(p, "/", "//", 1)
			case 2:
				p = p + "/"
			case 3:
				p = "/" + p
			case 4:
				p = "zz/../" + p
			}
			cls += "+unclean"
		}
		if r.Chance(30) {
			p = "!" + p
			cls = "!" + cls
		}
		if validPattern(p) {
			return p, cls
		}
	}
}

// mode: 0 = any pattern; 1 = inclusions prefix-only (exclusions any); 2 = exclusions prefix-only
// (inclusions any).  Mode 1 on the include side / mode 2 on the exclude side arm the shortcuts.
func genPatternList(r *Rng, paths []string, view []*MNode, classes map[string]int, mode int) []string {
	if r.Chance(25) && mode == 0 {
		return nil
	}
	if mode != 0 {
		n := 1 + r.Intn(4)
		var out []string
		for i := 0; i < n; i++ {
			neg := r.Chance(30)
			if mode == 2 && i == 0 {
				neg = false // something must be excluded for the exclude shortcut to matter
			}
			var p, c string
			if (mode == 1 && !neg) || (mode == 2 && neg) || r.Chance(60) {
				p, c = genPrefixPattern(r, paths)
			} else {
				for {
					p, c = genPattern(r, paths)
					if !strings.HasPrefix(p, "!") {
						break
					}
				}
			}
			if neg {
				p, c = "!"+p, "!"+c
			}
			if !validPattern(p) {
				i--
				continue
			}
			classes[c]++
			out = append(out, p)
		}
		return out
	}
	// K1 shape: [d, !d/c, d]
	if r.Chance(8) {
		for try := 0; try < 5 && len(paths) > 0; try++ {
			p := Pick(r, paths)
			if i := strings.LastIndex(p, "/"); i > 0 {
				classes["K1-shape"]++
				out := []string{p[:i], "!" + p, p[:i]}
				if r.Bool() {
					q, c := genPattern(r, paths)
					classes[c]++
					out = append(out, q)
				}
				return out
			}
		}
	}
	n := 1 + r.Intn(5)
	var out []string
	for i := 0; i < n; i++ {
		if len(out) > 0 && r.Chance(15) {
			out = append(out, Pick(r, out))
			classes["duplicate"]++
			continue
		}
		p, c := genPattern(r, paths)
		classes[c]++
		out = append(out, p)
	}
	return out
}

func genMapTable(r *Rng, paths []string, isDir map[string]bool) Sx {
	if r.Chance(45) || len(paths) == 0 {
		return L()
	}
	var ents []Sx
	n := 1 + r.Intn(4)
	for i := 0; i < n; i++ {
		p := Pick(r, paths)
		res := 0
		switch x := r.Intn(10); {
		case x < 3:
			res = 1
		case x < 6:
			res = 2
		}
		ents = append(ents, L(S(p), NI(res), NI(r.Intn(5))))
	}
	return L(ents...)
}

func c10Case(view []*MNode, inc, exc []string, mt Sx) Sx {
	return L(ViewSx(view), stringsSx(inc), stringsSx(exc), mt)
}

func emit1001(g *Gen, view []*MNode, inc, exc []string, mt Sx, tag string) {
	in := c10Case(view, inc, exc, mt)
	wi := &walkInfo{}
	restore := quietStderr()
	out := guardedC10(func() Sx { return realFilterWalk(view, inc, exc, mt, wi) })
	restore()
	// a directory was pruned by a shortcut: it was visited, its first child was not, and the map
	// table answers SkipDir neither for it nor for an ancestor (the only other ways a directory's
	// callback returns SkipDir)
	skipDirAt := map[string]bool{}
	for _, e := range mt.L {
		if e.L[1].Int() == 2 {
			skipDirAt[e.L[0].Str()] = true
		}
	}
	pruned := false
	var scan func(dir string, kids []*MNode)
	scan = func(dir string, kids []*MNode) {
		for _, k := range kids {
			p := k.Name
			if dir != "" {
				p = dir + "/" + k.Name
			}
			if k.IsDir() && len(k.Kids) > 0 && wi.visited[p] && !wi.visited[p+"/"+k.Kids[0].Name] {
				blocked := false
				for _, pre := range relPrefixes(p) {
					if skipDirAt[pre] {
						blocked = true
					}
				}
				if !blocked {
					pruned = true
				}
			}
			scan(p, k.Kids)
		}
	}
	scan("", view)
	// lazily reported directory: reported although the patterns (naive reading) do not select it
	lazy := false
	if len(out.L) == 5 {
		var ipm, epm *patternmatcher.PatternMatcher
		if len(inc) > 0 {
			ipm, _ = patternmatcher.New(inc)
		}
		if len(exc) > 0 {
			epm, _ = patternmatcher.New(exc)
		}
		for _, p := range wi.reported {
			keep := true
			if ipm != nil {
				m, _ := ipm.MatchesOrParentMatches(p)
				keep = keep && m
			}
			if epm != nil {
				m, _ := epm.MatchesOrParentMatches(p)
				keep = keep && !m
			}
			if !keep {
				lazy = true
			}
		}
	}
	sides := "none"
	switch {
	case len(inc) > 0 && len(exc) > 0:
		sides = "inc+exc"
	case len(inc) > 0:
		sides = "inc"
	case len(exc) > 0:
		sides = "exc"
	}
	cls := tag + ":" + sides
	if pruned {
		cls += ",pruned"
	}
	if lazy {
		cls += ",lazy-parent"
	}
	if len(mt.L) > 0 {
		cls += ",map"
	}
	if len(wi.reported) == 0 {
		cls += ",empty-result"
	}
	g.EmitWith(0x1001, in, out, pruned && lazy, cls)
}

func genC10(g *Gen) {
	defer quietStderr()()
	r := g.Rng
	classes := map[string]int{}
	nWalk := g.Vol(2000, 60000)
	for i := 0; i < nWalk; i++ {
		names := c10Names
		tag := "walk"
		unsafeNames := i%40 == 39
		if unsafeNames {
			names = append(append([]string{}, c10Names[:6]...), c10UnsafeNames...)
		}
		if i%3 == 0 { // few names: deep chains, many hits
			names = []string{"a", "b", "ab", "c", "a.b"}
		}
		metaNames := i%10 == 7 && !unsafeNames
		if metaNames {
			names = append([]string{"a", "b", "app", "c"}, c10MetaNames...)
		}
		var view []*MNode
		if i%4 == 3 && !unsafeNames {
			view = GenView(r, TreeOpts{MaxEntries: 4 + r.Intn(11), MaxDepth: 4, Names: names, Types: r.Chance(30), Xattrs: r.Chance(20), Owners: true})
		} else {
			view = c10DeepView(r, names)
		}
		paths := viewPaths(view)
		isDir := map[string]bool{}
		for _, st := range WalkEntries(view) {
			isDir[st.Path] = os.FileMode(st.Mode).IsDir()
		}
		var inc, exc []string
		switch i % 4 {
		case 0: // include shortcut armed
			inc = genPatternList(r, paths, view, classes, 1)
			if r.Chance(40) {
				exc = genPatternList(r, paths, view, classes, 2)
			}
			tag = "armed-inc"
		case 1: // exclude shortcut armed
			exc = genPatternList(r, paths, view, classes, 2)
			if r.Chance(40) {
				inc = genPatternList(r, paths, view, classes, 1)
			}
			tag = "armed-exc"
		default:
			inc = genPatternList(r, paths, view, classes, 0)
			exc = genPatternList(r, paths, view, classes, 0)
		}
		if metaNames { // never build unescaped patterns from names with metacharacters ("[a" is a syntax error)
			inc, exc = nil, nil
			tag = "escaped-metachars"
			if l, side := c10EscapedList(r, paths, classes); l != nil {
				if side == 'i' {
					inc = l
				} else {
					exc = l
				}
			} else if len(paths) > 0 {
				inc = []string{c10Escape(Pick(r, paths))}
			}
		}
		mt := genMapTable(r, paths, isDir)
		if unsafeNames {
			tag += "-unsafe-names"
		}
		emit1001(g, view, inc, exc, mt, tag)
		// the same configuration as a history of walks on one FS value: re-walks and nested walks
		if i%4 == 2 {
			var hist []Sx
			nested, after := false, false
			for k := 2 + r.Intn(3); k > 0; k-- {
				var nest []Sx
				if r.Chance(60) {
					for d := 1 + r.Intn(2); d > 0; d-- {
						nest = append(nest, NI(r.Intn(6)))
					}
					if len(hist) > 0 {
						after = true
					}
					nested = true
				}
				hist = append(hist, L(nest...))
			}
			cls := "history"
			if nested {
				cls += "+nested"
			}
			if after {
				cls += "+after-completed-walk"
			}
			g.Emit(0x1005, L(ViewSx(view), stringsSx(inc), stringsSx(exc), mt, L(hist...)), after && len(inc)+len(exc) > 0, cls+":"+tag)
		}

		// list evaluation on one path of this view (and sometimes a path outside it)
		if len(inc) > 0 && len(paths) > 0 {
			p := Pick(r, paths)
			if r.Chance(15) {
				p = p + "/" + Pick(r, c10Names)
			}
			g.Emit(0x1002, L(stringsSx(inc), S(p)), strings.Contains(p, "/") && len(inc) >= 2, "list-eval")
		}
		// Open against the naive verdict
		if len(paths) > 0 && i%2 == 0 {
			p := Pick(r, paths)
			switch r.Intn(12) {
			case 0:
				p = p + "/zz"
			case 1:
				p = "zz/" + p
			case 2:
				p = strings.Replace(p, "/", "//", 1)
			case 3:
				p = "./" + p
			}
			g.Emit(0x1004, L(stringsSx(inc), stringsSx(exc), S(p)), len(inc)+len(exc) >= 2 && strings.Contains(p, "/"), "open")
		}
	}
	g.Note("pattern_classes", classes)

	// hypotheses on the external matcher for prefix-only patterns: literal, L/*, L/** against
	// the real library, L over names with regex-special and non-ASCII bytes
	lits := []string{"a", "ab", "a/b", "a.b", "a b", "b+", "(a)", "a$", "a-b", "~", "a,b", "a#", "é", "日本", "a/é", "",
		"a{2}", "a|b", "{a}", "\x80", "a\x00b", "a\nb", ".a", "..a", "a..", "a&b", "a%", "a=b", "a@", "a'b", "a\"b", "a;b", "a<b>", "a:b", "a`", "\x7f", "\x01", "A"}
	suff := []string{"", "/*", "/**"}
	tails := []string{"", "/", "/x", "/x/y", "x", "/x/", "/é", "/\x80", "/\n", "/*", "//x", "/a.b", "/.", "b"}
	heads := []string{"", "x", "/", "x/"}
	for _, l := range lits {
		for _, s := range suff {
			pat := l + s
			if !validPattern(pat) {
				continue
			}
			for _, neg := range []string{"", "!"} {
				for _, h := range heads {
					for _, t := range tails {
						g.Emit(0x1003, L(S(neg+pat), S(h+l+t)), s != "" && h == "", "hyp-directed")
					}
				}
				// confusable literals
				for _, l2 := range lits {
					g.Emit(0x1003, L(S(neg+pat), S(l2+"/x")), false, "hyp-cross")
				}
			}
		}
	}
	nHyp := g.Vol(4000, 100000)
	for i := 0; i < nHyp; i++ {
		view := GenView(r, TreeOpts{MaxEntries: 8, MaxDepth: 3, Names: append(append([]string{}, c10Names...), c10UnsafeNames...)})
		paths := viewPaths(view)
		if len(paths) == 0 {
			continue
		}
		p, cls := genPattern(r, paths)
		q := Pick(r, paths)
		if r.Chance(20) {
			q = q + Pick(r, []string{"/", "x", "/x", "/x/y"})
		}
		g.Emit(0x1003, L(S(p), S(q)), true, "hyp-random:"+strings.TrimPrefix(strings.SplitN(cls, "+", 2)[0], "!"))
	}
}
