package main

import (
	"os"
	"strings"
)

// ---- generator of syscall sequences for kind 0301 ----
var c03Names = []string{"a", "b", "c", "l", "m", "a", "b"}
var c03Targets = []string{"a", "b", "c", "l", "m", "../a", "../b", "..", ".", "/", "/a", "/a/b", "/b", "a/b", "a/../b",
	"../../a", "/l", "/m", "l/a", "./m", "nonexistent", "/../a", "a//b", "../l/../a"}
var c03Modes = []uint64{0644, 0600, 0755, 0700, 0777, 0, 0444, 04755, 02755, 02775, 01777, 06711, 02644, 07777, 0111}
var c03XKeys = []string{"user.a", "user.b", "trusted.t", "user.z", "other.x"}

func c03Path(r *Rng, plainFinal bool) string {
	n := 1 + r.Intn(4)
	if r.Chance(45) {
		n = 1
	}
	var cs []string
	for i := 0; i < n; i++ {
		last := i == n-1
		switch k := r.Intn(20); {
		case k == 0 && !(last && plainFinal):
			cs = append(cs, "..")
		case k == 1 && !(last && plainFinal):
			cs = append(cs, ".")
		case k == 2 && !last:
			cs = append(cs, "") // double separator
		default:
			cs = append(cs, Pick(r, c03Names))
		}
	}
	p := strings.Join(cs, "/")
	if r.Chance(20) {
		p = "/" + p
	}
	if p == "" {
		p = "a"
	}
	return p
}

func c03GenOps(r *Rng) Sx {
	n := 4 + r.Intn(22)
	var ops []Sx
	moved := false // after a chdir nothing is removed or renamed (a removed working directory is outside the model)
	for i := 0; i < n; i++ {
		k := r.Intn(100)
		if moved && k >= 60 && k < 80 {
			k = 40
		}
		if i < 6 { // build something first
			k = r.Intn(40)
		}
		mode := N(Pick(r, c03Modes))
		mt := N(uint64(1e18) + uint64(r.Intn(1000000))*1000003)
		switch {
		case k < 12:
			ops = append(ops, L(N(5), S(c03Path(r, false)), mode))
		case k < 22:
			ops = append(ops, L(N(7), S(Pick(r, c03Targets)), S(c03Path(r, false))))
		case k < 32 && r.Chance(25):
			ops = append(ops, L(N(19), S(c03Path(r, false)), mode, B(fillContent(r, Pick(r, []int{0, 0, 2, 5})))))
		case k < 32:
			data := fillContent(r, Pick(r, []int{0, 1, 3, 7}))
			ops = append(ops, L(N(9), S(c03Path(r, false)), Bool(r.Chance(75)), mode, NI(Pick(r, []int{0, 0, 0, 2, 5})), B(data)))
		case k < 35:
			if r.Bool() {
				ops = append(ops, L(N(6), S(c03Path(r, false)), N(0010000), mode, N(0)))
			} else {
				ops = append(ops, L(N(6), S(c03Path(r, false)), N(0020000), mode, N(uint64(241<<8|r.Intn(4)))))
			}
		case k < 40:
			ops = append(ops, L(N(8), S(c03Path(r, false)), S(c03Path(r, false))))
		case k < 44:
			ops = append(ops, L(N(1), S(c03Path(r, false))))
		case k < 48:
			ops = append(ops, L(N(2), S(c03Path(r, false))))
		case k < 51:
			ops = append(ops, L(N(3), S(c03Path(r, false))))
		case k < 55:
			ops = append(ops, L(N(4), S(c03Path(r, false))))
		case k < 60:
			ops = append(ops, L(N(10), S(c03Path(r, false))))
		case k < 64:
			ops = append(ops, L(N(11), S(c03Path(r, true))))
		case k < 69:
			ops = append(ops, L(N(12), S(c03Path(r, true))))
		case k < 80:
			ops = append(ops, L(N(13), S(c03Path(r, true)), S(c03Path(r, true))))
		case k < 85:
			ops = append(ops, L(N(14), S(c03Path(r, false)), mode))
		case k < 90:
			ids := []uint64{0, 1, 1000, 65534, 0xFFFFFFFF}
			ops = append(ops, L(N(15), S(c03Path(r, false)), N(Pick(r, ids)), N(Pick(r, ids))))
		case k < 94:
			ops = append(ops, L(N(16), S(c03Path(r, false)), mt))
		case k < 98:
			ops = append(ops, L(N(17), S(c03Path(r, false)), S(Pick(r, c03XKeys)), B(fillContent(r, r.Intn(4)))))
		default:
			moved = true
			ops = append(ops, L(N(18), S(c03Path(r, false))))
		}
	}
	return L(ops...)
}

func genC03(g *Gen) {
	nk := g.Vol(4000, 150000)
	if os.Getenv("C03ONLY302") != "" { // development aid: only the hostile streams
		nk = 0
	}
	for i := 0; i < nk; i++ {
		in := c03GenOps(g.Rng)
		out := kinds[0x0301](in)
		// non-trivial: at least one symlink was created and at least 3 calls succeeded after it
		nt := false
		if len(out.L) == 2 {
			sym, okAfter := false, 0
			for j, op := range in.L {
				if j < len(out.L[0].L) && (len(out.L[0].L[j].L) == 0 || out.L[0].L[j].L[0].U64() == 0) {
					if sym {
						okAfter++
					}
					if op.L[0].Int() == 7 {
						sym = true
					}
				}
			}
			nt = sym && okAfter >= 3
		}
		g.EmitWith(0x0301, in, out, nt, "kernel-ops")
	}
	genC03Streams(g)
}
