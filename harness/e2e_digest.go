package main

import (
	"os"
	"reflect"
)

// callDigest calls the Digest() method of the FileInfo passed to NotifyHashed by reflection
// (its static type is unexported in fsutil).
func callDigest(fi os.FileInfo) interface{} {
	m := reflect.ValueOf(fi).MethodByName("Digest")
	if !m.IsValid() {
		return ""
	}
	out := m.Call(nil)
	if len(out) != 1 {
		return ""
	}
	return out[0].Interface()
}
