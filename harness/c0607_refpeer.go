package main

// Reference peers for C06 / C07.  Both are written from the protocol description in the
// header of receive.go ONLY (STATs in walk order, empty STAT = end; REQ id = index of the
// file in the STAT sequence; DATA id chunks, empty DATA = end of that file; FIN when the
// receiver has everything; ERR on error) - not from send.go / receive.go.

import (
	"os"
	"sync"

	"github.com/tonistiigi/fsutil/types"
)

// ---------------------------------------------------------------- reference receiver (C06)

// One scripted request: sent once at least When STAT packets (the empty one included) have
// been received.  Ops are sent strictly in script order.
type refReqOp struct {
	When int
	ID   uint32
}

// Ending: 0 = wait for everything, FIN, wait for the echo; 1 = wait for everything, close
// without FIN; 2 = ERR right after the last request; 3 = FIN right after the last request;
// 4 = close right after the last request.
type refRecvScript struct {
	Ops    []refReqOp
	Ending int
}

type refReceiver struct {
	st     c0607Conn
	script refRecvScript

	mu         sync.Mutex
	cond       *sync.Cond
	seen       int
	endSeen    bool
	modes      []uint32
	term       map[uint32]int
	readerDone bool
	gotErr     bool
	finEcho    bool
	hangup     func() // closes the connection (both directions fail), as a real transport does when a peer gives up
	done       chan struct{}
}

func startRefReceiver(st c0607Conn, script refRecvScript, hangup func()) *refReceiver {
	r := &refReceiver{st: st, script: script, term: map[uint32]int{}, hangup: hangup, done: make(chan struct{})}
	r.cond = sync.NewCond(&r.mu)
	var wg sync.WaitGroup
	wg.Add(2)
	go func() { defer wg.Done(); r.reader() }()
	go func() { defer wg.Done(); r.writer() }()
	go func() { wg.Wait(); close(r.done) }()
	return r
}

func (r *refReceiver) reader() {
	defer func() {
		r.mu.Lock()
		r.readerDone = true
		r.cond.Broadcast()
		r.mu.Unlock()
	}()
	for {
		var p types.Packet
		if err := r.st.RecvMsg(&p); err != nil {
			return
		}
		r.mu.Lock()
		stop := false
		switch p.Type {
		case types.PACKET_STAT:
			r.seen++
			if p.Stat == nil {
				r.endSeen = true
			} else {
				r.modes = append(r.modes, p.Stat.Mode)
			}
		case types.PACKET_DATA:
			if len(p.Data) == 0 {
				r.term[p.ID]++
			}
		case types.PACKET_FIN:
			r.finEcho = true // keep draining until the stream ends
		case types.PACKET_ERR:
			r.gotErr = true
			stop = true
		}
		r.cond.Broadcast()
		r.mu.Unlock()
		if stop {
			r.hangup()
			return
		}
	}
}

// everything the script asked for (and the protocol lets one ask for) has been terminated
func (r *refReceiver) complete() bool {
	if !r.endSeen {
		return false
	}
	for _, op := range r.script.Ops {
		if int(op.ID) < len(r.modes) && os.FileMode(r.modes[op.ID])&os.ModeType == 0 && r.term[op.ID] == 0 {
			return false
		}
	}
	return true
}

func (r *refReceiver) writer() {
	defer r.st.CloseSend()
	for _, op := range r.script.Ops {
		r.mu.Lock()
		for r.seen < op.When && !r.endSeen && !r.readerDone {
			r.cond.Wait()
		}
		rd := r.readerDone
		r.mu.Unlock()
		if rd {
			return
		}
		if err := r.st.SendMsg(&types.Packet{Type: types.PACKET_REQ, ID: op.ID}); err != nil {
			return
		}
	}
	switch r.script.Ending {
	case 0, 1:
		r.mu.Lock()
		for !r.complete() && !r.readerDone {
			r.cond.Wait()
		}
		rd := r.readerDone
		r.mu.Unlock()
		if rd || r.script.Ending == 1 {
			return
		}
		if err := r.st.SendMsg(&types.Packet{Type: types.PACKET_FIN}); err != nil {
			return
		}
	case 2:
		r.st.SendMsg(&types.Packet{Type: types.PACKET_ERR, Data: []byte("scripted receiver error")})
		return
	case 3:
		if err := r.st.SendMsg(&types.Packet{Type: types.PACKET_FIN}); err != nil {
			return
		}
	case 4:
		return
	}
	// FIN sent: wait for the echo (or the end of the stream)
	r.mu.Lock()
	for !r.finEcho && !r.readerDone {
		r.cond.Wait()
	}
	r.mu.Unlock()
}

// ---------------------------------------------------------------- reference sender (C07)

type refEntry struct {
	Stat    *types.Stat
	Content []byte
}

// ChunkMode 0: fixed Chunk bytes; 1: uniformly random in [1, Chunk]; 2: per id alternately Chunk
// bytes (short) and 32 KiB + Chunk bytes (a full packet and more); 3: per chunk at random short
// (1..Chunk) or full (32 KiB .. 32 KiB + Chunk): short payloads before, between and after full ones.
// StatWeight: percentage with which a STAT is preferred when both a STAT and DATA could be sent.
// Pick: which active id gets the next DATA packet: 0 random, 1 oldest request, 2 newest request, 3 round robin.
// Ending: 0 = on FIN echo FIN then close; 1 = on FIN close without echo; 2 = close after
// CloseAfter packets; 3 = ERR after CloseAfter packets, then close.
type refSendScript struct {
	ChunkMode  int
	Chunk      int
	StatWeight int
	Pick       int
	Ending     int
	CloseAfter int
	Seed       uint64
}

type refTransfer struct {
	id  uint32
	off int
	k   int // chunks sent so far
}

type refSender struct {
	st      c0607Conn
	entries []refEntry
	script  refSendScript
	onFin   func()
	hangup  func()

	mu         sync.Mutex
	cond       *sync.Cond
	queue      []uint32
	finSeen    bool
	gotErr     bool
	readerDone bool
	done       chan struct{}
}

func startRefSender(st c0607Conn, entries []refEntry, script refSendScript, onFin func(), hangup func()) *refSender {
	s := &refSender{st: st, entries: entries, script: script, onFin: onFin, hangup: hangup, done: make(chan struct{})}
	s.cond = sync.NewCond(&s.mu)
	var wg sync.WaitGroup
	wg.Add(2)
	go func() { defer wg.Done(); s.reader() }()
	go func() { defer wg.Done(); s.writer() }()
	go func() { wg.Wait(); close(s.done) }()
	return s
}

func (s *refSender) reader() {
	defer func() {
		s.mu.Lock()
		s.readerDone = true
		s.cond.Broadcast()
		s.mu.Unlock()
	}()
	for {
		var p types.Packet
		if err := s.st.RecvMsg(&p); err != nil {
			return
		}
		s.mu.Lock()
		stop := false
		switch p.Type {
		case types.PACKET_REQ:
			s.queue = append(s.queue, p.ID)
		case types.PACKET_FIN:
			s.finSeen = true
			stop = true
		case types.PACKET_ERR:
			s.gotErr = true
			stop = true
		}
		s.cond.Broadcast()
		s.mu.Unlock()
		if s.gotErr {
			s.hangup()
		}
		if stop {
			return
		}
	}
}

func (s *refSender) writer() {
	defer s.st.CloseSend()
	rng := NewRng(s.script.Seed)
	nextStat := 0 // index of the next STAT to send; len(entries) = the empty one; len+1 = all sent
	var active []refTransfer
	sent := 0
	rr := 0
	for {
		s.mu.Lock()
		for {
			for _, id := range s.queue {
				active = append(active, refTransfer{id: id})
			}
			s.queue = nil
			if s.finSeen || s.readerDone || nextStat <= len(s.entries) || len(active) > 0 {
				break
			}
			s.cond.Wait()
		}
		fin, rd := s.finSeen, s.readerDone
		s.mu.Unlock()
		if fin {
			if s.onFin != nil {
				s.onFin()
			}
			if s.script.Ending != 1 {
				s.st.SendMsg(&types.Packet{Type: types.PACKET_FIN})
			}
			return
		}
		if rd {
			return
		}
		if (s.script.Ending == 2 || s.script.Ending == 3) && sent >= s.script.CloseAfter {
			if s.script.Ending == 3 {
				s.st.SendMsg(&types.Packet{Type: types.PACKET_ERR, Data: []byte("scripted sender error")})
			}
			return
		}
		canStat := nextStat <= len(s.entries)
		canData := len(active) > 0
		if !canStat && !canData {
			continue
		}
		doStat := canStat && (!canData || rng.Intn(100) < s.script.StatWeight)
		var p *types.Packet
		if doStat {
			if nextStat < len(s.entries) {
				p = &types.Packet{Type: types.PACKET_STAT, Stat: s.entries[nextStat].Stat.CloneVT()}
			} else {
				p = &types.Packet{Type: types.PACKET_STAT}
			}
			nextStat++
		} else {
			k := 0
			switch s.script.Pick {
			case 0:
				k = rng.Intn(len(active))
			case 1:
				k = 0
			case 2:
				k = len(active) - 1
			case 3:
				rr++
				k = rr % len(active)
			}
			t := &active[k]
			if int(t.id) >= len(s.entries) || os.FileMode(s.entries[t.id].Stat.Mode)&os.ModeType != 0 {
				// a request the protocol does not allow: report and stop
				s.st.SendMsg(&types.Packet{Type: types.PACKET_ERR, Data: []byte("reference sender: invalid request")})
				return
			}
			content := s.entries[t.id].Content
			if t.off >= len(content) {
				p = &types.Packet{Type: types.PACKET_DATA, ID: t.id}
				active = append(active[:k], active[k+1:]...)
			} else {
				n := s.script.Chunk
				if n < 1 {
					n = 1
				}
				switch s.script.ChunkMode {
				case 1:
					n = 1 + rng.Intn(n)
				case 2:
					if t.k%2 == 1 {
						n += 32768
					}
				case 3:
					if rng.Intn(2) == 0 {
						n = 1 + rng.Intn(n)
					} else {
						n = 32768 + rng.Intn(n+1)
					}
				}
				t.k++
				if n > len(content)-t.off {
					n = len(content) - t.off
				}
				p = &types.Packet{Type: types.PACKET_DATA, ID: t.id, Data: content[t.off : t.off+n]}
				t.off += n
			}
		}
		if err := s.st.SendMsg(p); err != nil {
			return
		}
		sent++
	}
}
