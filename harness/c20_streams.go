package main

// C20, kind 2007 — several protoStreams in ONE process, their RecvMsg calls interleaved.
//
//   2007 (mode ((packets lens)..) schedule)  ->  ((full-stream (item..))..)      one result per stream
//
// util/protostream.go shares one sync.Pool of read buffers between all streams of the process. Whatever
// the pool does, every stream must receive exactly what was sent on it. Each stream is written by SendMsg
// into its own buffer and read back by its own goroutine through a GATED fragmenting reader: before a Read
// starts a new piece (lens as in kind 2004) the goroutine parks and waits for the scheduler. `schedule` is
// a list of stream indices; each entry lets that stream consume exactly one more piece and run until it
// parks again (or finishes) — so at any moment only one goroutine runs, and the case decides at which
// piece boundaries (e.g. in the middle of a body larger than the pooled buffer, while the pool entry is
// in use) the other stream's RecvMsg calls happen. No sleeps. When the schedule is used up the streams
// are run to completion one after the other.
// For the duration of a case GOMAXPROCS is 1 and the GC is off: sync.Pool is per-P and cleared by GC, so
// this makes "the next Get sees the last Put" deterministic; two forced collections before the case empty
// the pool, so every case starts with a fresh one.  mode bit 0: one Packet reused with ResetVT per stream (as receive.go).
// Decoded packets are looked at again after everything has run (aliasing across streams).

import (
	"bytes"
	"context"
	"io"
	"runtime"
	"runtime/debug"

	"github.com/tonistiigi/fsutil/types"
	"github.com/tonistiigi/fsutil/util"
)

func init() {
	kinds[0x2007] = run2007
}

type c20Gated struct {
	fr    *fragReader
	ev    chan int      // to the scheduler: 0 = parked at a piece boundary, 1 = receive loop finished
	grant chan struct{} // from the scheduler: consume one more piece
}

func (g *c20Gated) Read(p []byte) (int, error) {
	if g.fr.cur < 0 && len(g.fr.data) > 0 {
		g.ev <- 0
		<-g.grant
	}
	return g.fr.Read(p)
}

type c20StreamRes struct {
	full   []byte
	early  []string
	got    []*types.Packet
	failed bool
	panic  string
}

func run2007(in Sx) Sx {
	return guardedC20(func() Sx {
		oldP := runtime.GOMAXPROCS(1)
		defer runtime.GOMAXPROCS(oldP)
		runtime.GC() // two collections empty the pool (local -> victim -> gone): every case starts on a fresh pool
		runtime.GC()
		oldGC := debug.SetGCPercent(-1)
		defer debug.SetGCPercent(oldGC)

		mode := in.L[0].Int()
		ns := len(in.L[1].L)
		res := make([]*c20StreamRes, ns)
		gates := make([]*c20Gated, ns)
		for i, sx := range in.L[1].L {
			var wbuf bytes.Buffer
			ws := util.NewProtoStream(context.Background(), nil, &wbuf)
			for _, px := range sx.L[0].L {
				if err := ws.SendMsg(SxPacket(px)); err != nil {
					return L(N(0xfffd), S("send-error"), S(err.Error()))
				}
			}
			lens := make([]int, len(sx.L[1].L))
			flags := make([]int, len(sx.L[1].L))
			for j, x := range sx.L[1].L {
				if x.Kind == 'n' {
					lens[j] = x.Int()
				} else {
					lens[j] = x.L[0].Int()
					flags[j] = x.L[1].Int()
				}
			}
			res[i] = &c20StreamRes{full: append([]byte{}, wbuf.Bytes()...)}
			gates[i] = &c20Gated{
				fr:    &fragReader{data: append([]byte{}, wbuf.Bytes()...), lens: lens, flags: flags, cur: -1},
				ev:    make(chan int),
				grant: make(chan struct{}),
			}
		}
		done := make([]bool, ns)
		started := make([]bool, ns)
		start := func(i int) {
			started[i] = true
			g, rs := gates[i], res[i]
			go func() {
				defer func() {
					if r := recover(); r != nil {
						rs.panic = "panic"
						if e, ok := r.(error); ok {
							rs.panic = e.Error()
						} else if s, ok := r.(string); ok {
							rs.panic = s
						}
					}
					g.ev <- 1
				}()
				stream := util.NewProtoStream(context.Background(), g, nil)
				var reused types.Packet
				for {
					var p *types.Packet
					if mode&1 == 0 {
						p = &types.Packet{}
					} else {
						reused.ResetVT()
						p = &reused
					}
					err := stream.RecvMsg(p)
					for _, b := range g.fr.given { // scribble over what this stream's reader filled
						for k := range b {
							b[k] = 0xA5
						}
					}
					g.fr.given = g.fr.given[:0]
					if err == io.EOF {
						return
					}
					if err != nil {
						rs.failed = true
						return
					}
					rs.early = append(rs.early, PacketSx(p).String())
					if mode&1 == 0 {
						rs.got = append(rs.got, p)
					}
				}
			}()
			if e := <-g.ev; e == 1 { // runs until it parks at its first piece (or finishes)
				done[i] = true
			}
		}
		step := func(i int) {
			if !started[i] {
				start(i)
				return
			}
			if done[i] {
				return
			}
			gates[i].grant <- struct{}{}
			if e := <-gates[i].ev; e == 1 {
				done[i] = true
			}
		}
		for i := 0; i < ns; i++ { // every stream parks at its first piece
			start(i)
		}
		for _, x := range in.L[2].L {
			if i := x.Int(); i >= 0 && i < ns {
				step(i)
			}
		}
		for i := 0; i < ns; i++ {
			for !done[i] {
				step(i)
			}
		}
		out := make([]Sx, ns)
		for i, rs := range res {
			if rs.panic != "" {
				return L(N(0xffff), S(rs.panic))
			}
			for j, p := range rs.got {
				if PacketSx(p).String() != rs.early[j] {
					return L(N(0xfffd), S("alias"), NI(i), NI(j))
				}
			}
			items := make([]Sx, 0, len(rs.early)+1)
			for _, e := range rs.early {
				items = append(items, L(mustParse(e)))
			}
			if rs.failed {
				items = append(items, L(N(0)))
			}
			out[i] = L(B(rs.full), L(items...))
		}
		return L(out...)
	})
}

// ---------------------------------------------------------------- generator
func c20GenStreams(g *Gen) {
	r := g.Rng
	// pieces: header, then the body in `parts` pieces (so that the stream parks inside the body)
	cut := func(sizes []int, parts int) []Sx {
		var l []Sx
		for _, s := range sizes {
			l = append(l, N(4))
			for k := parts; k > 0 && s > 0; k-- {
				c := s / k
				if c == 0 {
					c = 1
				}
				l = append(l, NI(c))
				s -= c
			}
		}
		return l
	}
	mk := func(sizes []int, idBase int) (Sx, int) {
		var ps []Sx
		for i, s := range sizes {
			var p *types.Packet
			if s <= 0 {
				p = &types.Packet{}
			} else {
				p = c20PacketOfSize(s, uint32(idBase+i))
			}
			ps = append(ps, PacketSx(p))
		}
		return L(ps...), len(sizes)
	}
	emit := func(mode int, a, b []int, partsA, partsB int, sched []int, cls string) {
		pa, _ := mk(a, 9)
		pb, _ := mk(b, 100)
		var ss []Sx
		for _, x := range sched {
			ss = append(ss, NI(x))
		}
		in := L(NI(mode), L(L(pa, L(cut(a, partsA)...)), L(pb, L(cut(b, partsB)...))), L(ss...))
		g.Emit(0x2007, in, true, cls)
	}
	rep := func(x, n int) []int {
		var l []int
		for i := 0; i < n; i++ {
			l = append(l, x)
		}
		return l
	}
	// directed: stream 0 parks inside a body of size `big` after `k` pieces; stream 1 then runs completely
	bigs := []int{c20PoolCap - 1, c20PoolCap, c20PoolCap + 1, c20PoolCap + 5, 40000}
	others := []int{20, c20PoolCap - 2, c20PoolCap + 1, 39000, 40000}
	if g.Thorough() {
		bigs = append(bigs, 2*c20PoolCap, 2*c20PoolCap+1, 100000)
		others = append(others, 300, c20PoolCap, 2*c20PoolCap+7)
	}
	v := 0
	for _, big := range bigs {
		for _, o := range others {
			for _, k := range []int{1, 2, 3} { // header only / header + part of the body / + more
				emit(v&1, []int{big, 24}, []int{o, 16, o}, 3, 2, append(rep(0, k), rep(1, 20)...), "streams-park-in-large-frame")
				v++
			}
		}
	}
	// both directions and a small frame first
	emit(0, []int{16, 40000}, []int{40000, 16}, 4, 4, []int{0, 0, 0, 0, 1, 1, 0, 1, 0, 1, 1, 0}, "streams-alternate")
	emit(1, []int{40000}, []int{40000}, 4, 4, []int{0, 1, 0, 1, 0, 1, 0, 1, 0, 1}, "streams-alternate")
	emit(0, []int{0, 40000, 0}, []int{0, 0, 33000}, 2, 2, []int{1, 1, 1, 0, 0, 0, 0, 1, 1, 0}, "streams-alternate")
	// random
	n := g.Vol(120, 5000)
	pick := []int{0, 16, 30, 300, c20PoolCap - 4, c20PoolCap, c20PoolCap + 1, c20PoolCap + 4, 33000, 40000}
	for i := 0; i < n; i++ {
		var a, b []int
		for j := 1 + r.Intn(3); j > 0; j-- {
			a = append(a, Pick(r, pick))
		}
		for j := 1 + r.Intn(3); j > 0; j-- {
			b = append(b, Pick(r, pick))
		}
		var sched []int
		for j := r.Intn(24); j > 0; j-- {
			sched = append(sched, r.Intn(2))
		}
		emit(r.Intn(2), a, b, 1+r.Intn(4), 1+r.Intn(4), sched, "streams-random")
	}
}
