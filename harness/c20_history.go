package main

// C20, kind 2008 — multi-step histories on ONE *types.Stat / *types.Packet object.
//
//   2008 (sel (op..))  ->  (item..)          one item per OBSERVATION op, in order
//
// The round-trip property is about values; the Go objects carry hidden state next to the fields (sizeCache,
// unknownFields, pooled Data capacity). "Every encode of the current value is the encoding of the current
// value, and RecvMsg returns it" must hold after ANY history of encodes, sends, field assignments and
// resets on the same object. sel 0: the object is a Stat, sel 1: a Packet. Ops:
//   mutations (no output)
//     (#0 value)   assign every field of the object from the value, field by field, no Reset
//     (#1 xdata)   p.Data = data (re-pointed)            (#2 #id) p.ID       (#3 #type) p.Type
//     (#4 ()|(stat)) p.Stat = nil / a new Stat
//     (#5 stat)    assign the fields of the EXISTING p.Stat in place (allocated if nil); for sel 0 = (#0 stat)
//     (#6) ResetVT()         (#7) Reset()
//   observations
//     (#a #path)   encode on a path of kind 2001 (Stat 0..5, Packet 0..6)        -> (bytes size) | (#0)
//     (#b #which)  0 SizeVT(), 1 Size() (Packet; Stat: SizeVT), 2 proto.Size (generic runtime)  -> (size)
//     (#c)         proto.MarshalOptions{Deterministic}.Marshal (generic runtime; caches sizes in the object)
//                                                                                 -> (#1 bytes) | (#0)
//     (#d)         SendMsg on the case's protoStream, then RecvMsg from it into a fresh Packet
//                  (Packet only)                                  -> (frame-bytes (packet)) | (frame-bytes (#0))

import (
	"bytes"
	"context"

	"github.com/tonistiigi/fsutil/types"
	"github.com/tonistiigi/fsutil/util"
	"google.golang.org/protobuf/proto"
)

func init() {
	kinds[0x2008] = run2008
}

func c20AssignStat(dst, src *types.Stat) {
	dst.Path, dst.Mode, dst.Uid, dst.Gid, dst.Size, dst.ModTime = src.Path, src.Mode, src.Uid, src.Gid, src.Size, src.ModTime
	dst.Linkname, dst.Devmajor, dst.Devminor, dst.Xattrs = src.Linkname, src.Devmajor, src.Devminor, src.Xattrs
}

func run2008(in Sx) Sx {
	return guardedC20(func() Sx {
		isPacket := in.L[0].Int()&1 == 1
		p := &types.Packet{}
		s := &types.Stat{}
		var wire bytes.Buffer
		stream := util.NewProtoStream(context.Background(), &wire, &wire)
		var items []Sx
		for _, op := range in.L[1].L {
			code := op.L[0].Int()
			switch code {
			case 0:
				if isPacket {
					q := SxPacket(op.L[1])
					p.Type, p.Stat, p.ID, p.Data = q.Type, q.Stat, q.ID, q.Data
				} else {
					c20AssignStat(s, SxStat(op.L[1]))
				}
			case 1:
				p.Data = nil
				if len(op.L[1].B) > 0 {
					p.Data = append([]byte{}, op.L[1].B...)
				}
			case 2:
				p.ID = uint32(op.L[1].U64())
			case 3:
				p.Type = types.Packet_PacketType(int32(uint32(op.L[1].U64())))
			case 4:
				p.Stat = nil
				if len(op.L[1].L) == 1 {
					p.Stat = SxStat(op.L[1].L[0])
				}
			case 5:
				if isPacket {
					if p.Stat == nil {
						p.Stat = &types.Stat{}
					}
					c20AssignStat(p.Stat, SxStat(op.L[1]))
				} else {
					c20AssignStat(s, SxStat(op.L[1]))
				}
			case 6:
				if isPacket {
					p.ResetVT()
				} else {
					s.Reset() // Stat has no ResetVT
				}
			case 7:
				if isPacket {
					p.Reset()
				} else {
					s.Reset()
				}
			case 10:
				if isPacket {
					items = append(items, c20EncodePacket(p, op.L[1].Int()))
				} else {
					items = append(items, c20EncodeStat(s, op.L[1].Int()))
				}
			case 11:
				var n int
				switch w := op.L[1].Int(); {
				case w == 2 && isPacket:
					n = proto.Size(p)
				case w == 2:
					n = proto.Size(s)
				case w == 1 && isPacket:
					n = p.Size()
				case isPacket:
					n = p.SizeVT()
				default:
					n = s.SizeVT()
				}
				items = append(items, L(NI(n)))
			case 12:
				var b []byte
				var err error
				mo := proto.MarshalOptions{Deterministic: true}
				if isPacket {
					b, err = mo.Marshal(p)
				} else {
					b, err = mo.Marshal(s)
				}
				if err != nil {
					items = append(items, L(N(0)))
				} else {
					items = append(items, L(N(1), B(append([]byte{}, b...))))
				}
			case 13:
				wire.Reset()
				if err := stream.SendMsg(p); err != nil {
					items = append(items, L(N(0xfffd), S("send-error"), S(err.Error())))
					break
				}
				frame := append([]byte{}, wire.Bytes()...)
				var got types.Packet
				if err := stream.RecvMsg(&got); err != nil {
					items = append(items, L(B(frame), L(N(0))))
				} else {
					items = append(items, L(B(frame), L(PacketSx(&got))))
				}
			default:
				return L(N(0xfffd), S("bad-op"))
			}
		}
		return L(items...)
	})
}

// ---------------------------------------------------------------- generator
func c20GenHistories(g *Gen) {
	r := g.Rng
	blob := func(n int) []byte {
		b := make([]byte, n)
		for i := range b {
			b[i] = byte(r.U64())
		}
		return b
	}
	dataLens := []int{0, 1, 3, 16, 100, 127, 128, 200, 300, 16383, 16384}
	ids := []uint32{0, 1, 127, 128, 16383, 16384, 1<<21 - 1, 1 << 21, 1<<32 - 1}
	obs := func(isPacket bool) Sx {
		switch k := r.Intn(10); {
		case k < 5:
			if isPacket {
				return L(N(10), NI(r.Intn(7)))
			}
			return L(N(10), NI(r.Intn(6)))
		case k < 7:
			return L(N(11), NI(r.Intn(3)))
		case k == 7:
			return L(N(12))
		default:
			if isPacket {
				return L(N(13))
			}
			return L(N(10), NI(r.Intn(6)))
		}
	}
	mut := func(isPacket bool) Sx {
		if !isPacket {
			switch r.Intn(8) {
			case 0:
				return L(N(6))
			case 1:
				return L(N(7))
			case 2:
				return L(N(0), StatSx(&types.Stat{})) // clear by assignment
			default:
				return L(N(0), StatSx(genStat(r, false)))
			}
		}
		switch r.Intn(12) {
		case 0:
			return L(N(6))
		case 1:
			return L(N(7))
		case 2, 3, 4: // re-point Data: grow, shrink, clear
			return L(N(1), B(blob(Pick(r, dataLens))))
		case 5:
			return L(N(2), N(uint64(Pick(r, ids))))
		case 6:
			return L(N(3), N(uint64(uint32(Pick(r, c20Types)))))
		case 7:
			if r.Bool() {
				return L(N(4), L())
			}
			return L(N(4), L(StatSx(genStat(r, false))))
		case 8, 9:
			return L(N(5), StatSx(genStat(r, false)))
		default:
			return L(N(0), PacketSx(genPacket(r, false)))
		}
	}
	n := g.Vol(1500, 60000)
	for i := 0; i < n; i++ {
		isPacket := r.Intn(4) != 0
		var ops []Sx
		cls := "history-random"
		if i%3 == 0 && isPacket {
			// directed shape: observe, mutate one length-changing field, observe again (optionally a Reset between)
			cls = "history-observe-mutate-observe"
			ops = append(ops, L(N(0), PacketSx(genPacket(r, false))), obs(true))
			for k := 1 + r.Intn(3); k > 0; k-- {
				if r.Chance(15) {
					ops = append(ops, L(NI(6+r.Intn(2))))
					cls = "history-observe-reset-mutate-observe"
				}
				ops = append(ops, mut(true), obs(true))
				if r.Chance(40) {
					ops = append(ops, obs(true))
				}
			}
		} else {
			ops = append(ops, mut(isPacket))
			for k := 2 + r.Intn(8); k > 0; k-- {
				if r.Chance(45) {
					ops = append(ops, mut(isPacket))
				} else {
					ops = append(ops, obs(isPacket))
				}
			}
			ops = append(ops, obs(isPacket))
		}
		sel := 0
		if isPacket {
			sel = 1
			cls += "-packet"
		} else {
			cls += "-stat"
		}
		g.Emit(0x2008, L(NI(sel), L(ops...)), true, cls)
	}
}
