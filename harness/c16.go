package main

// C16 — copy include/exclude selects exactly the reference set and creates no extra directories.
//
//   kind 1601: input  = (srcView dstView include exclude mode name [alwaysReplace])
//                mode 0: Copy(srcRoot, "/", dstRoot, "/") with CopyDirContents
//                mode 1: Copy(srcRoot, name, dstRoot, "/")       (name = a top-level entry of srcView;
//                        a directory lands at dstRoot/name, patterns are relative to it; a
//                        non-directory is copied whatever the patterns say)
//                mode 2: Copy(srcRoot, "*", dstRoot, "/") with AllowWildcards: every top-level entry
//                        is a top-level source of its own, as in mode 1, in lexical order
//              output = (#ffff)                                  newCopier rejected the patterns
//                     | (#0 inc exc ptable errclass snapshot)    inc/exc as the real matchers hold them,
//                        ptable = ((pattern path bool) ...) from the real Pattern.match (as in c10.go),
//                        snapshot = independent lstat listing of dstRoot afterwards
//   kind 1602: input  = (srcView include exclude)
//              output = (#ffff) | (#0 inc exc ptable errclass copiedPaths walkedPaths): the REAL
//                        copy.Copy into an empty directory and the REAL
//                        fsutil.NewFilterFS(fsutil.NewFS(srcRoot), {include, exclude}).Walk
//                        over the same directory on disk

import (
	"context"
	"fmt"
	gofs "io/fs"
	"os"
	"path/filepath"
	"strings"
	"syscall"
	"time"

	"github.com/moby/patternmatcher"
	"github.com/tonistiigi/fsutil"
	fscopy "github.com/tonistiigi/fsutil/copy"
	"github.com/tonistiigi/fsutil/types"
	"golang.org/x/sys/unix"
)

func init() {
	kinds[0x1601] = run1601
	kinds[0x1602] = run1602
	props["C16"] = genC16
}

func c16ErrClass(err error) int {
	if err == nil {
		return 0
	}
	m := err.Error()
	switch {
	case strings.Contains(m, "invalid includepatterns"), strings.Contains(m, "invalid excludepatterns"):
		return 0xffff
	case strings.Contains(m, "cannot copy to non-directory"):
		return 1
	case strings.Contains(m, "cannot replace to directory"):
		return 2
	case strings.Contains(m, "failed to stat"):
		return 3
	}
	return 4
}

func c16SetRootMeta(dir string) error {
	if err := os.Chown(dir, 0, 0); err != nil {
		return err
	}
	return unix.Chmod(dir, 0755)
}

// the real copier, never hanging, never panicking
func c16Copy(srcRoot, src, dstRoot, dst string, inc, exc []string, dirContents, wild, replace bool) int {
	ch := make(chan int, 1)
	go func() {
		defer func() {
			if r := recover(); r != nil {
				ch <- 0xfe
			}
		}()
		ci := fscopy.CopyInfo{IncludePatterns: inc, ExcludePatterns: exc, CopyDirContents: dirContents, AllowWildcards: wild,
			AlwaysReplaceExistingDestPaths: replace}
		err := fscopy.Copy(context.Background(), srcRoot, src, dstRoot, dst, fscopy.WithCopyInfo(ci))
		ch <- c16ErrClass(err)
	}()
	select {
	case c := <-ch:
		return c
	case <-time.After(10 * time.Second):
		return 0xff
	}
}

func c16Setup(prefix string, srcView, dstView []*MNode) (work, srcRoot, dstRoot string, err error) {
	work = WorkDir(prefix)
	srcRoot, dstRoot = filepath.Join(work, "s"), filepath.Join(work, "d")
	for _, d := range []string{srcRoot, dstRoot} {
		if err = os.Mkdir(d, 0755); err != nil {
			return
		}
	}
	if err = Materialize(srcView, srcRoot); err != nil {
		return
	}
	if err = Materialize(dstView, dstRoot); err != nil {
		return
	}
	if err = c16SetRootMeta(srcRoot); err != nil {
		return
	}
	err = c16SetRootMeta(dstRoot)
	return
}

func c16FindTop(view []*MNode, name string) *MNode {
	for _, n := range view {
		if n.Name == name {
			return n
		}
	}
	return nil
}

// the paths the patterns are asked about (relative to the top-level source)
func c16RelPaths(srcView []*MNode, mode int, name string) []string {
	if mode == 0 {
		return viewPaths(srcView)
	}
	if mode == 2 {
		var out []string
		for _, n := range srcView {
			if n.IsDir() {
				out = append(out, viewPaths(n.Kids)...)
			}
		}
		return out
	}
	if n := c16FindTop(srcView, name); n != nil && n.IsDir() {
		return viewPaths(n.Kids)
	}
	return nil
}

func c16Tables(inc, exc []string, paths []string) (is, es Sx, tbl []Sx, ok bool) {
	is, err1 := patsSx(inc)
	es, err2 := patsSx(exc)
	if err1 != nil || err2 != nil {
		return Sx{}, Sx{}, nil, false
	}
	tbl = pmatchTable(append(append([]string{}, inc...), exc...), withPrefixes(paths))
	return is, es, tbl, true
}

func run1601(in Sx) (out Sx) {
	defer quietStderr()()
	defer func() {
		if r := recover(); r != nil {
			out = L(S("harness-panic"), S(fmt.Sprint(r)))
		}
	}()
	srcView, dstView := SxView(in.L[0]), SxView(in.L[1])
	inc, exc := sxStrings(in.L[2]), sxStrings(in.L[3])
	mode, name := in.L[4].Int(), in.L[5].Str()
	replace := len(in.L) > 6 && in.L[6].IsTrue()

	work, srcRoot, dstRoot, err := c16Setup("c16-", srcView, dstView)
	defer os.RemoveAll(work)
	if err != nil {
		return L(S("setup"), S(err.Error()))
	}
	old := syscall.Umask(022)
	defer syscall.Umask(old)

	src, dirContents, wild := "/", true, false
	switch mode {
	case 1:
		src, dirContents = name, false
	case 2:
		src, dirContents, wild = "*", false, true
	}
	cls := c16Copy(srcRoot, src, dstRoot, "/", inc, exc, dirContents, wild, replace)
	if cls == 0xffff {
		return L(N(0xffff))
	}
	es, err := SnapshotRaw(dstRoot, true)
	if err != nil {
		return L(S("snapshot"), S(err.Error()))
	}
	snap := make([]Sx, 0, len(es))
	for _, e := range es {
		snap = append(snap, e.Sx())
	}
	is, xs, tbl, ok := c16Tables(inc, exc, c16RelPaths(srcView, mode, name))
	if !ok {
		return L(N(0xfffb))
	}
	return L(N(0), is, xs, L(tbl...), NI(cls), L(snap...))
}

func c16RealWalk(dir string, inc, exc []string) ([]string, error) {
	f, err := fsutil.NewFS(dir)
	if err != nil {
		return nil, err
	}
	opt := &fsutil.FilterOpt{}
	if len(inc) > 0 {
		opt.IncludePatterns = inc
	}
	if len(exc) > 0 {
		opt.ExcludePatterns = exc
	}
	ff, err := fsutil.NewFilterFS(f, opt)
	if err != nil {
		return nil, err
	}
	var paths []string
	type res struct{ err error }
	ch := make(chan res, 1)
	go func() {
		defer func() {
			if r := recover(); r != nil {
				ch <- res{fmt.Errorf("panic: %v", r)}
			}
		}()
		ch <- res{ff.Walk(context.Background(), "/", func(p string, d gofs.DirEntry, err error) error {
			if err != nil {
				return err
			}
			paths = append(paths, p)
			return nil
		})}
	}()
	select {
	case r := <-ch:
		return paths, r.err
	case <-time.After(10 * time.Second):
		return nil, fmt.Errorf("walk hangs")
	}
}

func run1602(in Sx) (out Sx) {
	defer quietStderr()()
	defer func() {
		if r := recover(); r != nil {
			out = L(S("harness-panic"), S(fmt.Sprint(r)))
		}
	}()
	srcView := SxView(in.L[0])
	inc, exc := sxStrings(in.L[1]), sxStrings(in.L[2])
	work, srcRoot, dstRoot, err := c16Setup("c16w-", srcView, nil)
	defer os.RemoveAll(work)
	if err != nil {
		return L(S("setup"), S(err.Error()))
	}
	old := syscall.Umask(022)
	defer syscall.Umask(old)

	cls := c16Copy(srcRoot, "/", dstRoot, "/", inc, exc, true, false, false)
	if cls == 0xffff {
		return L(N(0xffff))
	}
	es, err := SnapshotRaw(dstRoot, false)
	if err != nil {
		return L(S("snapshot"), S(err.Error()))
	}
	var copied []string
	for _, e := range es {
		copied = append(copied, e.Path)
	}
	walked, err := c16RealWalk(srcRoot, inc, exc)
	if err != nil {
		return L(S("walk"), S(err.Error()))
	}
	is, xs, tbl, ok := c16Tables(inc, exc, viewPaths(srcView))
	if !ok {
		return L(N(0xfffb))
	}
	return L(N(0), is, xs, L(tbl...), NI(cls), stringsSx(copied), stringsSx(walked))
}

// ---------------------------------------------------------------- generator

var c16Names = []string{"a", "b", "ab", "c", "d", "x", "a.b", "a b", "é", "b+"}
var c16FewNames = []string{"a", "b", "ab", "c"}

func c16Mode(m int) uint32 {
	u := uint32(m & 0777)
	if m&04000 != 0 {
		u |= uint32(os.ModeSetuid)
	}
	if m&02000 != 0 {
		u |= uint32(os.ModeSetgid)
	}
	if m&01000 != 0 {
		u |= uint32(os.ModeSticky)
	}
	return u
}

func c16Xattrs(r *Rng) map[string][]byte {
	x := map[string][]byte{"user.k" + string(rune('a'+r.Intn(3))): fillContent(r, 1+r.Intn(4))}
	if r.Chance(30) {
		x["user.z"] = []byte{0, 1, 2}
	}
	return x
}

// bushy, deep views over few names; directories carry distinctive modes, owners and xattrs
func c16View(r *Rng, names []string, withTypes bool) []*MNode {
	budget := 4 + r.Intn(12)
	var build func(depth int) []*MNode
	build = func(depth int) []*MNode {
		var kids []*MNode
		n := 1 + r.Intn(3)
		used := map[string]bool{}
		for i := 0; i < n && budget > 0; i++ {
			name := Pick(r, names)
			if used[name] {
				continue
			}
			used[name] = true
			budget--
			st := &types.Stat{Uid: uint32(Pick(r, []int{0, 0, 1000, 65534})), Gid: uint32(Pick(r, []int{0, 5, 1000})),
				ModTime: int64(1600000000+r.Intn(1000))*1e9 + int64(r.Intn(1e9))}
			node := &MNode{Name: name, Stat: st}
			pdir := 60
			if depth >= 2 {
				pdir = 40
			}
			switch {
			case depth < 4 && r.Chance(pdir):
				st.Mode = uint32(os.ModeDir) | c16Mode(Pick(r, []int{0755, 0700, 0711, 01777, 02775, 0750}))
				if r.Chance(30) {
					st.Xattrs = c16Xattrs(r)
				}
				if !r.Chance(12) { // sometimes an empty directory
					node.Kids = build(depth + 1)
				}
			case withTypes && r.Chance(15):
				st.Mode = uint32(os.ModeSymlink | 0777)
				st.Linkname = Pick(r, []string{"a", "../a", "/a/b", "nonexistent", ".", "b"})
				st.Size = int64(len(st.Linkname))
			case withTypes && r.Chance(5):
				st.Mode = uint32(os.ModeNamedPipe | 0644)
			default:
				st.Mode = c16Mode(Pick(r, []int{0644, 0600, 0755, 0444, 04755, 0}))
				node.Content = fillContent(r, Pick(r, sizesSmall))
				st.Size = int64(len(node.Content))
				if r.Chance(15) {
					st.Xattrs = c16Xattrs(r)
				}
			}
			kids = append(kids, node)
		}
		return kids
	}
	root := &MNode{Name: "", Stat: &types.Stat{Mode: uint32(os.ModeDir | 0755)}, Kids: build(0)}
	sortKids(root)
	return root.Kids
}

func c16Clone(n *MNode) *MNode {
	c := &MNode{Name: n.Name, Stat: n.Stat.CloneVT(), Content: append([]byte{}, n.Content...)}
	for _, k := range n.Kids {
		c.Kids = append(c.Kids, c16Clone(k))
	}
	return c
}

// a destination that overlaps the source: some of its directories exist already with other
// metadata, some files exist with other content, unrelated entries stand next to them;
// conflict: one entry has the other type
func c16DstFrom(r *Rng, src []*MNode, conflict bool) []*MNode {
	conflicted := !conflict
	var linked []*MNode // source directories whose place is taken by a symlink to zd/<n>
	var rec func(kids []*MNode, depth int) []*MNode
	rec = func(kids []*MNode, depth int) []*MNode {
		var out []*MNode
		for _, k := range kids {
			if !r.Chance(55) {
				continue
			}
			if conflict && k.IsDir() && r.Chance(30) {
				// a symlink where the source has a directory; it leads to a real directory of the
				// destination that holds entries named like the source directory's children
				linked = append(linked, k)
				target := strings.Repeat("../", depth) + fmt.Sprintf("zd/l%d", len(linked))
				out = append(out, &MNode{Name: k.Name, Stat: &types.Stat{Mode: uint32(os.ModeSymlink | 0777), Linkname: target,
					Size: int64(len(target)), ModTime: 1500000000e9}})
				conflicted = true
				continue
			}
			c := &MNode{Name: k.Name, Stat: k.Stat.CloneVT()}
			c.Stat.Uid, c.Stat.Gid = uint32(Pick(r, []int{0, 7, 1000})), uint32(Pick(r, []int{0, 7}))
			c.Stat.Xattrs = nil
			isDir := k.IsDir()
			if !conflicted && r.Chance(25) {
				isDir = !isDir
				conflicted = true
			}
			if isDir {
				c.Stat.Mode = uint32(os.ModeDir) | c16Mode(Pick(r, []int{0755, 0777, 0500, 03770}))
				c.Stat.Linkname, c.Stat.Size = "", 0
				if r.Chance(40) {
					c.Stat.Xattrs = map[string][]byte{"user.old": {9}}
					if r.Chance(50) {
						c.Stat.Xattrs["user.ka"] = []byte{7, 7}
					}
				}
				if k.IsDir() {
					c.Kids = rec(k.Kids, depth+1)
				}
				if r.Chance(25) {
					c.Kids = append(c.Kids, &MNode{Name: "zz", Stat: &types.Stat{Mode: 0640, Uid: 3, Size: 2, ModTime: 1500000000e9}, Content: []byte("zz")})
				}
			} else {
				c.Stat.Mode = c16Mode(Pick(r, []int{0600, 0666, 04711}))
				c.Stat.Linkname = ""
				c.Content = fillContent(r, 1+r.Intn(5))
				c.Stat.Size = int64(len(c.Content))
				if r.Chance(20) {
					c.Stat.Xattrs = map[string][]byte{"user.old": {9}}
				}
			}
			out = append(out, c)
		}
		return out
	}
	out := rec(src, 0)
	if r.Chance(50) || len(linked) > 0 {
		zd := &MNode{Name: "zd", Stat: &types.Stat{Mode: uint32(os.ModeDir | 0711), Gid: 4, ModTime: 1500000000e9},
			Kids: []*MNode{{Name: "q", Stat: &types.Stat{Mode: 0644, Size: 1, ModTime: 1500000000e9}, Content: []byte("q")}}}
		for i, k := range linked {
			ld := &MNode{Name: fmt.Sprintf("l%d", i+1), Stat: &types.Stat{Mode: uint32(os.ModeDir | 0755), ModTime: 1500000000e9}}
			for _, kk := range k.Kids {
				c := &MNode{Name: kk.Name, Stat: &types.Stat{Mode: 0640, Uid: 8, ModTime: 1500000000e9}}
				if kk.IsDir() && r.Bool() {
					c.Stat.Mode = uint32(os.ModeDir | 0750)
					for _, k3 := range kk.Kids {
						c.Kids = append(c.Kids, &MNode{Name: k3.Name, Stat: &types.Stat{Mode: 0600, Size: 1, ModTime: 1500000000e9}, Content: []byte("3")})
					}
				} else {
					c.Content = []byte("outside-of-the-copied-tree")
					c.Stat.Size = int64(len(c.Content))
				}
				ld.Kids = append(ld.Kids, c)
			}
			zd.Kids = append(zd.Kids, ld)
		}
		out = append(out, zd)
	}
	root := &MNode{Name: "", Stat: &types.Stat{Mode: uint32(os.ModeDir | 0755)}, Kids: out}
	sortKids(root)
	return root.Kids
}

// directed pattern shapes on top of the C10 grammar
func c16Directed(r *Rng, view []*MNode, paths []string, classes map[string]int) (inc, exc []string, tag string) {
	var dirs, files, deep []string
	isDir := map[string]bool{}
	for _, st := range WalkEntries(view) {
		if os.FileMode(st.Mode).IsDir() {
			dirs = append(dirs, st.Path)
			isDir[st.Path] = true
		} else {
			files = append(files, st.Path)
		}
		if strings.Count(st.Path, "/") >= 2 {
			deep = append(deep, st.Path)
		}
	}
	if len(paths) == 0 {
		return nil, nil, "none"
	}
	switch r.Intn(9) {
	case 0: // one deep entry: a chain of parents created on demand
		if len(deep) > 0 {
			return []string{Pick(r, deep)}, nil, "deep-literal"
		}
	case 1: // a/*/c: the case the comment in copyDirectory is about
		if len(deep) > 0 {
			cs := splitPath(Pick(r, deep))
			cs[1+r.Intn(len(cs)-2)] = "*"
			return []string{strings.Join(cs, "/")}, nil, "a/*/c"
		}
	case 2: // a directory selected, everything in it excluded: copied empty
		if len(dirs) > 0 {
			d := Pick(r, dirs)
			return []string{d}, []string{d + "/*"}, "dir-without-descendants"
		}
	case 3: // nothing matches below whole subtrees
		return []string{Pick(r, paths) + "/nope", "zz/**"}, nil, "nothing-matches"
	case 4: // **/name
		p := Pick(r, paths)
		cs := splitPath(p)
		return []string{"**/" + cs[len(cs)-1]}, nil, "**/name"
	case 5: // exclusion with exception below it
		if len(deep) > 0 {
			p := Pick(r, deep)
			return nil, []string{splitPath(p)[0], "!" + p}, "exclude-with-exception"
		}
	case 6: // include a directory, take one entry out again, put a sibling pattern after it
		if len(dirs) > 0 {
			d := Pick(r, dirs)
			return []string{d, "!" + d + "/" + Pick(r, c16FewNames), Pick(r, paths)}, nil, "include-with-hole"
		}
	case 7: // trailing /* on a directory and on a file
		return []string{Pick(r, paths) + "/*"}, nil, "trailing/*"
	case 8: // K1 shape
		for try := 0; try < 5; try++ {
			p := Pick(r, paths)
			if i := strings.LastIndex(p, "/"); i > 0 {
				return []string{p[:i], "!" + p, p[:i]}, nil, "K1-shape"
			}
		}
	}
	inc = genPatternList(r, paths, view, classes, 0)
	exc = genPatternList(r, paths, view, classes, 0)
	return inc, exc, "grammar"
}

type c16Shape struct{ lazy, skipped, ok bool }

// what the run exercised: a directory present afterwards that the patterns (naive reading) do
// not select (= parent created on demand), and a source directory that was not created
func c16Classify(srcRel []*MNode, prefix string, inc, exc []string, out Sx, dstHad map[string]bool) c16Shape {
	var sh c16Shape
	if len(out.L) != 6 || out.L[4].Int() != 0 {
		return sh
	}
	sh.ok = true
	present := map[string]bool{}
	for _, e := range out.L[5].L {
		present[e.L[0].Str()] = true
	}
	var ipm, epm *patternmatcher.PatternMatcher
	if len(inc) > 0 {
		ipm, _ = patternmatcher.New(inc)
	}
	if len(exc) > 0 {
		epm, _ = patternmatcher.New(exc)
	}
	for _, st := range WalkEntries(srcRel) {
		if !os.FileMode(st.Mode).IsDir() {
			continue
		}
		full := st.Path
		if prefix != "" {
			full = prefix + "/" + st.Path
		}
		keep := true
		if ipm != nil {
			m, _ := ipm.MatchesOrParentMatches(st.Path)
			keep = keep && m
		}
		if epm != nil {
			m, _ := epm.MatchesOrParentMatches(st.Path)
			keep = keep && !m
		}
		if present[full] && !keep && !dstHad[full] {
			sh.lazy = true
		}
		if !present[full] {
			sh.skipped = true
		}
	}
	return sh
}

func genC16(g *Gen) {
	defer quietStderr()()
	r := g.Rng
	classes := map[string]int{}
	n := g.Vol(3000, 40000)
	for i := 0; i < n; i++ {
		names := c16Names
		if i%3 == 0 {
			names = c16FewNames
		}
		// entry names holding pattern metacharacters literally, addressed by backslash-escaped
		// patterns (no unescaped wildcard, yet not a byte prefix of what they match): seed C16-m
		meta := i%10 == 7
		if meta {
			names = append([]string{"a", "b", "app", "c"}, c10MetaNames...)
		}
		view := c16View(r, names, i%4 == 1)
		paths := viewPaths(view)
		mode, name := 0, ""
		srcRel := view // the tree the patterns are aimed at
		switch x := r.Intn(100); {
		case meta: // a top-level name like "*" must not become a wildcard source
		case x < 18 && len(view) > 0:
			top := Pick(r, view)
			mode, name = 1, top.Name
			srcRel = nil
			if top.IsDir() {
				srcRel = top.Kids
			}
			paths = viewPaths(srcRel)
		case x < 28 && len(view) > 0:
			mode = 2
			var dirs []*MNode
			for _, n := range view {
				if n.IsDir() {
					dirs = append(dirs, n)
				}
			}
			srcRel = nil
			if len(dirs) > 0 {
				srcRel = Pick(r, dirs).Kids
			}
			paths = viewPaths(srcRel)
		}
		var inc, exc []string
		var tag string
		var escaped []string
		var escSide byte
		if meta {
			escaped, escSide = c10EscapedList(r, paths, classes)
		}
		switch {
		case escaped != nil && escSide == 'i':
			inc, tag = escaped, "escaped-literal-inc"
		case escaped != nil:
			exc, tag = escaped, "escaped-literal-exc"
		case i%5 <= 1:
			inc, exc, tag = c16Directed(r, srcRel, paths, classes)
		case i%5 == 2:
			inc = genPatternList(r, paths, srcRel, classes, 1)
			if r.Chance(40) {
				exc = genPatternList(r, paths, srcRel, classes, 2)
			}
			tag = "prefix-inc"
		case i%5 == 3:
			exc = genPatternList(r, paths, srcRel, classes, 2)
			if r.Chance(40) {
				inc = genPatternList(r, paths, srcRel, classes, 1)
			}
			tag = "prefix-exc"
		default:
			inc = genPatternList(r, paths, srcRel, classes, 0)
			exc = genPatternList(r, paths, srcRel, classes, 0)
			tag = "grammar"
		}
		var dst []*MNode
		dcls := "empty"
		switch x := r.Intn(100); {
		case x < 45:
		case x < 78:
			dst, dcls = c16DstFrom(r, view, false), "populated"
		default:
			dst, dcls = c16DstFrom(r, view, true), "conflict"
		}
		dstHad := map[string]bool{}
		for _, p := range viewPaths(dst) {
			dstHad[p] = true
		}
		replace := len(dst) > 0 && r.Chance(40)
		in := L(ViewSx(view), ViewSx(dst), stringsSx(inc), stringsSx(exc), NI(mode), S(name), Bool(replace))
		out := run1601(in)
		var sh c16Shape
		if mode == 2 {
			sh.ok = len(out.L) == 6 && out.L[4].Int() == 0
			for _, top := range view {
				if top.IsDir() {
					t := c16Classify(top.Kids, top.Name, inc, exc, out, dstHad)
					sh.lazy, sh.skipped = sh.lazy || t.lazy, sh.skipped || t.skipped
				}
			}
		} else {
			sh = c16Classify(srcRel, name, inc, exc, out, dstHad)
		}
		cls := fmt.Sprintf("%s/%s/mode%d", tag, dcls, mode)
		if replace {
			cls += "/always-replace"
		}
		if !sh.ok {
			cls += "/err"
		}
		if sh.lazy {
			cls += ",lazy-parent"
		}
		if sh.skipped {
			cls += ",dir-not-created"
		}
		g.EmitWith(0x1601, in, out, sh.ok && sh.lazy && sh.skipped, cls)
	}

	m := g.Vol(1000, 15000)
	for i := 0; i < m; i++ {
		names := c16Names
		if i%3 == 0 {
			names = c16FewNames
		}
		if i%25 == 24 {
			names = append(append([]string{}, c10Names[:4]...), c10UnsafeNames...)
		}
		meta := i%10 == 7
		if meta {
			names = append([]string{"a", "b", "app", "c"}, c10MetaNames...)
		}
		view := c16View(r, names, i%4 == 1)
		paths := viewPaths(view)
		var inc, exc []string
		tag := "walk"
		var escaped []string
		var escSide byte
		if meta {
			escaped, escSide = c10EscapedList(r, paths, classes)
		}
		switch {
		case escaped != nil && escSide == 'i':
			inc, tag = escaped, "walk-escaped-literal-inc"
		case escaped != nil:
			exc, tag = escaped, "walk-escaped-literal-exc"
		case i%4 == 0:
			inc, exc, tag = c16Directed(r, view, paths, classes)
			tag = "walk-" + tag
		case i%4 == 1:
			inc = genPatternList(r, paths, view, classes, 1)
			tag = "walk-prefix-inc"
		case i%4 == 2:
			exc = genPatternList(r, paths, view, classes, 2)
			tag = "walk-prefix-exc"
		default:
			inc = genPatternList(r, paths, view, classes, 0)
			exc = genPatternList(r, paths, view, classes, 0)
		}
		in := L(ViewSx(view), stringsSx(inc), stringsSx(exc))
		out := run1602(in)
		nontriv := len(out.L) == 7 && len(out.L[5].L) > 0 && len(out.L[5].L) < len(paths)
		g.EmitWith(0x1602, in, out, nontriv, tag)
	}
	g.Note("pattern_classes", classes)
}
