package main

import (
	"os"
	"sort"

	"github.com/tonistiigi/fsutil/types"
)

// NamePool: names with bytes below and above '/', spaces, dots, non-ASCII; siblings x, x<c>y
// with c on both sides of '/' so that bytewise order and path order differ.
var NamePool = []string{
	"a", "b", "ab", "a-b", "a b", "a.b", "a0", "a!", "c", "d", "~", "\x01", "\x7f", "\x80", "é", "日本",
	"A", "0", "...", "..a", ".a", "a..", "foo", "bar", "a+b", "a,b", "a*", ".fsutil-metadata",
}

type TreeOpts struct {
	MaxEntries int
	MaxDepth   int
	Names      []string
	Types      bool // symlinks, fifos, devices in addition to files and dirs
	HardLinks  bool
	Xattrs     bool
	BigFiles   bool // sizes around the 32 KiB chunk boundary
	Owners     bool
	LongNames  bool
}

var sizesSmall = []int{0, 1, 2, 5, 17}
var sizesBig = []int{0, 1, 32767, 32768, 32769, 65537, 100001}

func fillContent(r *Rng, n int) []byte {
	b := make([]byte, n)
	seed := r.U64()
	for i := range b {
		seed = seed*6364136223846793005 + 1442695040888963407
		b[i] = byte(seed >> 56)
	}
	return b
}

// GenView generates a random view (forest). Hard-link members carry Linkname = path of the
// first member in walk order (as the real walker reports them) and the full Size.
func GenView(r *Rng, o TreeOpts) []*MNode {
	if o.Names == nil {
		o.Names = NamePool
	}
	if o.MaxEntries == 0 {
		o.MaxEntries = 12
	}
	if o.MaxDepth == 0 {
		o.MaxDepth = 4
	}
	root := &MNode{Name: "", Stat: &types.Stat{Mode: uint32(os.ModeDir | 0755)}}
	type dref struct {
		n     *MNode
		depth int
	}
	dirs := []dref{{root, 0}}
	n := 1 + r.Intn(o.MaxEntries)
	var files []*MNode
	for i := 0; i < n; i++ {
		d := Pick(r, dirs)
		name := Pick(r, o.Names)
		if o.LongNames && r.Chance(5) {
			b := make([]byte, 200+r.Intn(56))
			for k := range b {
				b[k] = "abcxyz-. "[r.Intn(9)]
			}
			if b[0] == '.' || b[0] == ' ' {
				b[0] = 'l'
			}
			name = string(b)
		}
		dup := false
		for _, k := range d.n.Kids {
			if k.Name == name {
				dup = true
			}
		}
		if dup {
			continue
		}
		st := &types.Stat{Mode: 0644, ModTime: int64(1600000000+r.Intn(1000000))*1e9 + int64(r.Intn(1e9))}
		if o.Owners {
			st.Uid = uint32(Pick(r, []int{0, 0, 1, 1000, 65534}))
			st.Gid = uint32(Pick(r, []int{0, 0, 5, 1000}))
		}
		st.Mode = uint32(Pick(r, []int{0644, 0600, 0755, 0444, 0640, 04755, 02755, 01777, 0}))
		node := &MNode{Name: name, Stat: st}
		kind := r.Intn(100)
		switch {
		case kind < 35 && d.depth < o.MaxDepth:
			st.Mode = uint32(os.ModeDir) | uint32(Pick(r, []int{0755, 0700, 0711, 01777, 02775}))
			if st.Mode&01000 != 0 {
				st.Mode = (st.Mode &^ 01000) | uint32(os.ModeSticky)
			}
			if st.Mode&02000 != 0 {
				st.Mode = (st.Mode &^ 02000) | uint32(os.ModeSetgid)
			}
			dirs = append(dirs, dref{node, d.depth + 1})
		case o.Types && kind < 45:
			st.Mode = uint32(os.ModeSymlink | 0777)
			st.Linkname = Pick(r, []string{"a", "../a", "/a/b", "nonexistent", ".", "a/../b", "/.verif-absent"})
			st.Size = int64(len(st.Linkname))
		case o.Types && kind < 50:
			st.Mode = uint32(os.ModeNamedPipe | 0644)
		case o.Types && kind < 55:
			st.Mode = uint32(os.ModeDevice|os.ModeCharDevice) | 0600
			st.Devmajor, st.Devminor = int64(1+r.Intn(5)), int64(r.Intn(300))
		case o.Types && kind < 58:
			st.Mode = uint32(os.ModeDevice) | 0660
			st.Devmajor, st.Devminor = int64(7+r.Intn(3)), int64(r.Intn(5))
		default:
			// regular file: fix special bits representation
			m := st.Mode
			st.Mode = m & 0777
			if m&04000 != 0 {
				st.Mode |= uint32(os.ModeSetuid)
			}
			if m&02000 != 0 {
				st.Mode |= uint32(os.ModeSetgid)
			}
			if m&01000 != 0 {
				st.Mode |= uint32(os.ModeSticky)
			}
			sz := Pick(r, sizesSmall)
			if o.BigFiles && r.Chance(30) {
				sz = Pick(r, sizesBig)
			}
			node.Content = fillContent(r, sz)
			st.Size = int64(sz)
			files = append(files, node)
		}
		if o.Xattrs && r.Chance(20) && (os.FileMode(st.Mode).IsDir() || os.FileMode(st.Mode)&os.ModeType == 0) { // user.* only on files and dirs
			st.Xattrs = map[string][]byte{"user.k" + string(rune('a'+r.Intn(3))): fillContent(r, r.Intn(6))}
			if r.Chance(30) {
				st.Xattrs["user.z"] = []byte{0, 1, 2}
			}
		}
		d.n.Kids = append(d.n.Kids, node)
	}
	sortKids(root)
	if o.HardLinks && len(files) >= 2 {
		// regroup some regular files into link groups: later members (in walk order) name the first
		order := map[*MNode]int{}
		paths := map[*MNode]string{}
		idx := 0
		var visit func(dir string, n *MNode)
		visit = func(dir string, n *MNode) {
			for _, k := range n.Kids {
				p := k.Name
				if dir != "" {
					p = dir + "/" + k.Name
				}
				order[k] = idx
				paths[k] = p
				idx++
				visit(p, k)
			}
		}
		visit("", root)
		groups := 1 + r.Intn(2)
		used := map[*MNode]bool{} // a node belongs to at most one group
		for g := 0; g < groups; g++ {
			sz := 2 + r.Intn(3)
			var members []*MNode
			for k := 0; k < sz; k++ {
				f := Pick(r, files)
				if f.Stat.Linkname == "" && !used[f] {
					members = append(members, f)
					used[f] = true
				}
			}
			if len(members) < 2 {
				continue
			}
			sort.Slice(members, func(a, b int) bool { return order[members[a]] < order[members[b]] })
			first := members[0]
			for _, m := range members[1:] {
				if m == first || m.Stat.Linkname != "" {
					continue
				}
				// same inode: same metadata and content
				m.Stat = first.Stat.CloneVT()
				m.Content = first.Content
				m.Stat.Linkname = paths[first]
			}
			// a first member must not itself be a link
			first.Stat.Linkname = ""
		}
	}
	return root.Kids
}

func sortKids(n *MNode) {
	sort.Slice(n.Kids, func(a, b int) bool { return n.Kids[a].Name < n.Kids[b].Name })
	for _, k := range n.Kids {
		sortKids(k)
	}
}
