package main

import (
	"sort"

	"github.com/tonistiigi/fsutil/types"
)

// Stat <-> Sx in the exchange format of FS.Model.Stat:
// (path mode uid gid size mtime linkname devmajor devminor ((k v) ...)) with xattrs sorted by key
// and int64 fields as two's complement mod 2^64.
func StatSx(s *types.Stat) Sx {
	if s == nil {
		return L()
	}
	keys := make([]string, 0, len(s.Xattrs))
	for k := range s.Xattrs {
		keys = append(keys, k)
	}
	sort.Strings(keys)
	xs := make([]Sx, 0, len(keys))
	for _, k := range keys {
		xs = append(xs, L(S(k), B(s.Xattrs[k])))
	}
	return L(S(s.Path), N(uint64(s.Mode)), N(uint64(s.Uid)), N(uint64(s.Gid)), I64(s.Size), I64(s.ModTime),
		S(s.Linkname), I64(s.Devmajor), I64(s.Devminor), L(xs...))
}

func SxStat(x Sx) *types.Stat {
	s := &types.Stat{
		Path: x.L[0].Str(), Mode: uint32(x.L[1].U64()), Uid: uint32(x.L[2].U64()), Gid: uint32(x.L[3].U64()),
		Size: int64(x.L[4].U64()), ModTime: int64(x.L[5].U64()), Linkname: x.L[6].Str(),
		Devmajor: int64(x.L[7].U64()), Devminor: int64(x.L[8].U64()),
	}
	if len(x.L[9].L) > 0 {
		s.Xattrs = map[string][]byte{}
		for _, kv := range x.L[9].L {
			s.Xattrs[kv.L[0].Str()] = append([]byte{}, kv.L[1].B...)
		}
	}
	return s
}

func nil_stat(mode uint32, size int64) *types.Stat {
	return &types.Stat{Mode: mode, Size: size, ModTime: 1600000000000000000}
}
